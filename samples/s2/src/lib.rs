//! Sample interface S2 (verif-owned): no standard commands requested; optional nodes at the first, a middle and
//! the last position; a declaration consisting of one optional node chain; lower-case 'z', digits, underscores.
use microscpi::{self as scpi, Error};

pub struct S2;

impl scpi::ErrorHandler for S2 {
    fn handle_error(&mut self, _error: Error) {}
}

#[scpi::interface]
impl S2 {
    #[scpi(cmd = "[STATus]:OPERation:[EVENt]?")]
    fn oper(&mut self) -> Result<u16, Error> { Ok(0) }

    #[scpi(cmd = "STATus:PRESet")]
    fn preset(&mut self) -> Result<(), Error> { Ok(()) }

    #[scpi(cmd = "NORMalize:[STATe]")]
    fn norm(&mut self, on: bool) -> Result<(), Error> { let _ = on; Ok(()) }

    #[scpi(cmd = "NORMalize:[STATe]?")]
    fn normq(&mut self) -> Result<bool, Error> { Ok(true) }

    #[scpi(cmd = "CHANnel1:MY_Value?")]
    fn ch1(&mut self) -> Result<i32, Error> { Ok(1) }

    #[scpi(cmd = "CHANnel2:MY_Value?")]
    fn ch2(&mut self) -> Result<i32, Error> { Ok(2) }

    #[scpi(cmd = "TRIGger:IN_A")]
    fn trig_a(&mut self) -> Result<(), Error> { Ok(()) }

    #[scpi(cmd = "TRIGger:INPut")]
    fn trig_in(&mut self) -> Result<(), Error> { Ok(()) }

    #[scpi(cmd = "*OPC?")]
    fn opc(&mut self) -> Result<bool, Error> { Ok(true) }

    #[scpi(cmd = "*OPC")]
    fn opc_cmd(&mut self) -> Result<(), Error> { Ok(()) }
}
