//! Sample interface S3 (verif-owned): declaration SHAPES only (for the macro-output validation of C01): every
//! letter of the alphabet in lower and upper case inside mnemonics, digits, underscores, one-letter mnemonics,
//! all-upper-case mnemonics (short == long), all-optional chains, optional first / middle / last nodes, deep paths,
//! white space around the colons, several common commands.
use microscpi::{self as scpi, Error};

pub struct S3;

impl scpi::ErrorHandler for S3 {
    fn handle_error(&mut self, _error: Error) {}
}

#[scpi::interface]
impl S3 {
    #[scpi(cmd = "ABCDefghijklm:NOPQrstuvwxyz")]
    fn alphabet(&mut self) -> Result<(), Error> { Ok(()) }
    #[scpi(cmd = "ZYXwvu:TSrqp?")]
    fn alphabet_rev(&mut self) -> Result<u8, Error> { Ok(0) }
    #[scpi(cmd = "X")]
    fn one_letter(&mut self) -> Result<(), Error> { Ok(()) }
    #[scpi(cmd = "X?")]
    fn one_letter_q(&mut self) -> Result<u8, Error> { Ok(0) }
    #[scpi(cmd = "UPPER:ONLY")]
    fn upper_only(&mut self) -> Result<(), Error> { Ok(()) }
    #[scpi(cmd = "[ALL]:[OPTional]:LEAF")]
    fn all_optional_prefix(&mut self) -> Result<(), Error> { Ok(()) }
    #[scpi(cmd = "DEEP:Er:AND:DEEPer:STILl:[MORe]:END?")]
    fn deep(&mut self) -> Result<u8, Error> { Ok(0) }
    #[scpi(cmd = "MEASure1:VOLTage2:DC_3?")]
    fn digits(&mut self) -> Result<u8, Error> { Ok(0) }
    #[scpi(cmd = "MEASure1:VOLTage2:AC_3?")]
    fn digits2(&mut self) -> Result<u8, Error> { Ok(0) }
    #[scpi(cmd = "A1b2C3d4")]
    fn mixed(&mut self) -> Result<(), Error> { Ok(()) }
    #[scpi(cmd = "SPACed : OUT : COMMand")]
    fn spaced(&mut self) -> Result<(), Error> { Ok(()) }
    #[scpi(cmd = "*CLS")]
    fn cls(&mut self) -> Result<(), Error> { Ok(()) }
    #[scpi(cmd = "*ESR?")]
    fn esr(&mut self) -> Result<u8, Error> { Ok(0) }
    #[scpi(cmd = "*ESE")]
    fn ese(&mut self, v: u8) -> Result<(), Error> { let _ = v; Ok(()) }
    #[scpi(cmd = "*ESE?")]
    fn ese_q(&mut self) -> Result<u8, Error> { Ok(0) }
    #[scpi(cmd = "TRAiling:[OPTional]")]
    fn trailing_opt(&mut self) -> Result<(), Error> { Ok(()) }
}
