//! Sample interface S4 (verif-owned): parallel sub-systems with identical child mnemonics, siblings that share a
//! short form, items in the impl block that are not SCPI handlers (command ids are the declaration order of the
//! handlers only), ErrorCommands without StandardCommands.
use microscpi::{self as scpi, Error, ErrorCommands, ErrorQueue, StaticErrorQueue};

pub struct S4 {
    pub errors: StaticErrorQueue<3>,
    pub level: u32,
}

impl ErrorCommands for S4 {
    fn error_queue(&mut self) -> &mut impl ErrorQueue {
        &mut self.errors
    }
}

#[scpi::interface(ErrorCommands)]
impl S4 {
    pub fn new() -> S4 { S4 { errors: StaticErrorQueue::new(), level: 0 } }

    #[scpi(cmd = "VOLTage:RANGe")]
    fn v_range(&mut self, v: u32) -> Result<(), Error> { self.level = v; Ok(()) }
    #[scpi(cmd = "VOLTage:RANGe?")]
    fn v_range_q(&mut self) -> Result<u32, Error> { Ok(1) }
    #[scpi(cmd = "VOLTage:LEVel?")]
    fn v_level_q(&mut self) -> Result<u32, Error> { Ok(2) }

    fn helper(&self) -> u32 { self.level }

    #[scpi(cmd = "CURRent:RANGe")]
    fn c_range(&mut self, v: u32) -> Result<(), Error> { self.level = v + self.helper(); Ok(()) }
    #[scpi(cmd = "CURRent:RANGe?")]
    fn c_range_q(&mut self) -> Result<u32, Error> { Ok(3) }
    #[scpi(cmd = "CURRent:LEVel?")]
    fn c_level_q(&mut self) -> Result<u32, Error> { Ok(4) }

    // two siblings with the same short form TEMP and different levels below them
    #[scpi(cmd = "TEMPerature:VALue?")]
    fn temp_value(&mut self) -> Result<u32, Error> { Ok(5) }
    #[scpi(cmd = "TEMPlate:NAME?")]
    fn template_name(&mut self) -> Result<u32, Error> { Ok(6) }
    // short form of one is the long form of the other
    #[scpi(cmd = "FREQ:STARt")]
    fn freq_start(&mut self, v: u32) -> Result<(), Error> { let _ = v; Ok(()) }
    #[scpi(cmd = "FREQuency:STOP")]
    fn freq_stop(&mut self, v: u32) -> Result<(), Error> { let _ = v; Ok(()) }

    pub fn another_helper(&mut self) {}

    #[scpi(cmd = "MEASure:VOLTage?")]
    fn meas(&mut self) -> Result<u32, Error> { Ok(7) }

    // command and query of one node declared with DIFFERENT optional nodes: the spellings of the two differ
    #[scpi(cmd = "[SOURce]:POWer")]
    fn power(&mut self, v: u32) -> Result<(), Error> { self.level = v; Ok(()) }
    #[scpi(cmd = "SOURce:POWer?")]
    fn power_q(&mut self) -> Result<u32, Error> { Ok(7) }
    #[scpi(cmd = "TRIGger:[SEQuence]:DELay")]
    fn delay(&mut self, v: u32) -> Result<(), Error> { self.level = v; Ok(()) }
    #[scpi(cmd = "TRIGger:DELay?")]
    fn delay_q(&mut self) -> Result<u32, Error> { Ok(8) }
}
