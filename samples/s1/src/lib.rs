//! Sample interface S1 (verif-owned): compiled through the real `#[microscpi::interface]` macro of /repo on every
//! run; the macro's OUTPUT (trie statics, root_node, execute_command) is what unit `generated_s1` puts under contract.
//! Handler bodies are irrelevant (handlers are abstract in the unit); signatures and `cmd` strings matter.
use microscpi::{self as scpi, Characters, Error, ErrorCommands, ErrorQueue, StandardCommands, StaticErrorQueue};

pub struct S1 {
    pub errors: StaticErrorQueue<4>,
}

impl ErrorCommands for S1 {
    fn error_queue(&mut self) -> &mut impl ErrorQueue {
        &mut self.errors
    }
}
impl StandardCommands for S1 {}

#[scpi::interface(StandardCommands, ErrorCommands)]
impl S1 {
    #[scpi(cmd = "*RST")]
    async fn rst(&mut self) -> Result<(), Error> { Ok(()) }

    #[scpi(cmd = "*IDN?")]
    fn idn(&mut self) -> Result<&'static str, Error> { Ok("verif,s1,0,0") }

    // command and query on one node; optional node in the middle; digits and underscore; non-prefix short form
    #[scpi(cmd = "[SOURce]:VOLTage:[LEVel]")]
    async fn set_volt(&mut self, v: f32) -> Result<(), Error> { let _ = v; Ok(()) }

    #[scpi(cmd = "[SOURce]:VOLTage:[LEVel]?")]
    fn get_volt(&mut self) -> Result<f32, Error> { Ok(1.5) }

    #[scpi(cmd = "INPut2:DIG_IO:TeST")]
    fn in2(&mut self, a: u8, b: i16) -> Result<(), Error> { let _ = (a, b); Ok(()) }

    // same mnemonic at several levels
    #[scpi(cmd = "LEVel?")]
    fn level0(&mut self) -> Result<u32, Error> { Ok(0) }

    #[scpi(cmd = "SOURce:LEVel?")]
    fn level1(&mut self) -> Result<u32, Error> { Ok(1) }

    #[scpi(cmd = "CONFigure:LABel")]
    async fn label(&mut self, s: &str, on: bool) -> Result<(), Error> { let _ = (s, on); Ok(()) }

    #[scpi(cmd = "DATA:BLOCk?")]
    fn block(&mut self, raw: &[u8], n: u64) -> Result<(i16, &'static str), Error> { let _ = (raw, n); Ok((1, "x")) }

    #[scpi(cmd = "CONFigure:MODE?")]
    fn mode(&mut self) -> Result<Characters<'static>, Error> { Ok(Characters("AUTO")) }

    #[scpi(cmd = "CONFigure:TEN")]
    #[allow(clippy::too_many_arguments)]
    fn ten(&mut self, a: u8, b: u8, c: u8, d: u8, e: u8, f: u8, g: u8, h: u8, i: u8, j: u8) -> Result<bool, Error> {
        let _ = (a, b, c, d, e, f, g, h, i, j);
        Ok(true)
    }
}
