use vstd::prelude::*;
use vstd::std_specs::iter::IteratorSpec;
use core::num::ParseIntError;
use core::str::{self, Utf8Error};
verus! {
#[verifier::external_type_specification]
#[verifier::external_body]
pub struct ExUtf8Error(Utf8Error);
#[verifier::external_type_specification]
#[verifier::external_body]
pub struct ExParseIntError(ParseIntError);

pub uninterp spec fn str_bytes(s: &str) -> Seq<u8>;
pub uninterp spec fn is_utf8(b: Seq<u8>) -> bool;

pub assume_specification<'a>[ core::str::from_utf8 ](v: &'a [u8]) -> (r: Result<&'a str, Utf8Error>)
    ensures r.is_ok() == is_utf8(v@), r.is_ok() ==> str_bytes(r.unwrap()) == v@;

pub assume_specification<'a, T, P: FnMut(&'a T) -> bool>[ <core::slice::Iter<'a, T> as Iterator>::position ](it: &mut core::slice::Iter<'a, T>, predicate: P) -> (r: Option<usize>) where core::slice::Iter<'a, T>: Sized,
    requires
        forall|x: &'a T| predicate.requires((x,)),
    ensures
        match r {
            Some(p) => p < old(it).remaining().len()
                && predicate.ensures((old(it).remaining()[p as int],), true)
                && forall|j: int| 0 <= j < p ==> predicate.ensures((#[trigger] old(it).remaining()[j],), false),
            None => forall|j: int| 0 <= j < old(it).remaining().len() ==> predicate.ensures((#[trigger] old(it).remaining()[j],), false),
        };

pub assume_specification[ u8::is_ascii_digit ](c: &u8) -> (r: bool) ensures r == (48 <= *c <= 57);
pub assume_specification[ u8::is_ascii_alphabetic ](c: &u8) -> (r: bool) ensures r == ((65 <= *c <= 90) || (97 <= *c <= 122));
pub assume_specification[ u8::is_ascii_alphanumeric ](c: &u8) -> (r: bool) ensures r == ((48 <= *c <= 57) || (65 <= *c <= 90) || (97 <= *c <= 122));
pub assume_specification[ u8::is_ascii_hexdigit ](c: &u8) -> (r: bool) ensures r == ((48 <= *c <= 57) || (65 <= *c <= 70) || (97 <= *c <= 102));

pub assume_specification<T, E, F>[ Result::<T, E>::or ](s: Result<T, E>, res: Result<T, F>) -> (r: Result<T, F>)
    ensures r == (match s { Ok(v) => Ok(v), Err(_) => res });
pub assume_specification<T, E>[ Result::<T, E>::unwrap_or ](s: Result<T, E>, d: T) -> (r: T)
    ensures r == (match s { Ok(v) => v, Err(_) => d });
pub assume_specification<T, E, F, O: FnOnce(E) -> Result<T, F>>[ Result::<T, E>::or_else ](s: Result<T, E>, op: O) -> (r: Result<T, F>)
    requires s is Err ==> op.requires((s->Err_0,)),
    ensures match s { Ok(v) => r == Ok::<T,F>(v), Err(e) => op.ensures((e,), r) };
pub assume_specification<T, E, O: FnOnce(E) -> T>[ Result::<T, E>::unwrap_or_else ](s: Result<T, E>, op: O) -> (r: T)
    requires s is Err ==> op.requires((s->Err_0,)),
    ensures match s { Ok(v) => r == v, Err(e) => op.ensures((e,), r) };

pub uninterp spec fn spec_parse_usize(b: Seq<u8>, radix: u32) -> Option<usize>;
pub assume_specification[ usize::from_str_radix ](src: &str, radix: u32) -> (r: Result<usize, ParseIntError>)
    ensures r.is_ok() == spec_parse_usize(str_bytes(src), radix).is_some(), r.is_ok() ==> r.unwrap() == spec_parse_usize(str_bytes(src), radix).unwrap();
pub const MAX_ARGS: usize = 10;
#[derive(Debug, Clone, Copy, PartialEq)]
pub enum Error { UndefinedHeader, InvalidCharacter, InvalidCharacterInNumber, HeaderSeparatorError, InvalidSeparator, CommandError, UnexpectedNumberOfParameters, SyntaxError }
#[derive(Debug, Clone, Copy, PartialEq)]
pub enum Value<'a> { String(&'a str), Characters(&'a str), Decimal(&'a str), Hexadecimal(&'a str), Binary(&'a str), Octal(&'a str), Arbitrary(&'a [u8]) }
pub struct Node { pub children: &'static [(&'static str, &'static Node)], pub command: Option<usize>, pub query: Option<usize> }
impl Node { #[verifier::external_body] pub fn child(&self, name: &str) -> Option<&'static Node> { unimplemented!() } }
#[verifier::external_body]
#[verifier::reject_recursive_types(T)]
pub struct Vec<T, const N: usize> { x: core::marker::PhantomData<T> }
impl<T, const N: usize> Vec<T, N> {
  #[verifier::external_body] pub fn new() -> Self { unimplemented!() }
  #[verifier::external_body] pub fn push(&mut self, t: T) -> Result<(), T> { unimplemented!() }
}



/// Enum to handle both recoverable and fatal errors.

pub enum ParseError {
    /// Recoverable error (continue trying other paths)
    SoftError(Option<Error>),
    /// Unrecoverable syntax error
    FatalError(Error),
    /// Incomplete data
    Incomplete,
}

impl From<()> for ParseError {
    fn from(_u: ()) -> Self {
        ParseError::SoftError(None)
    }
}

impl From<Error> for ParseError {
    fn from(e: Error) -> Self {
        match e {
            Error::UndefinedHeader => ParseError::FatalError(e),
            _ => ParseError::SoftError(Some(e)),
        }
    }
}

impl From<Utf8Error> for ParseError {
    fn from(_e: Utf8Error) -> Self {
        Error::InvalidCharacter.into()
    }
}

impl From<ParseIntError> for ParseError {
    fn from(_e: ParseIntError) -> Self {
        Error::InvalidCharacterInNumber.into()
    }
}

/// Type alias for the parser result.
type ParseResult<'a, T> = Result<(&'a [u8], T), ParseError>;

/// A SCPI command call.
///
/// This structure represents a SCPI command call and contains the node in the
/// SCPI command tree that the command corresponds to, whether the command is a
/// query, the arguments of the command, whether the command is terminated by a
/// newline, and whether the command is a common command.

pub struct CommandCall<'a> {
    /// The node in the SCPI command tree that the command corresponds to.
    pub node: &'static Node,
    /// The parent node of this SCPI command. When the command has no header
    /// it must be a _common command_ (starting with an asterisk).
    pub header: Option<&'static Node>,
    /// The command is a query (ends with a question mark).
    pub query: bool,
    /// The arguments of the command.
    pub args: Vec<Value<'a>, MAX_ARGS>,
    // Whether the command is terminated by a newline and resets the position in the SCPI command
    // tree.
    pub terminated: bool,
}

/// Takes bytes while the predicate function is true.
///
/// Returns a tuple with the remaining input and the slice of bytes that were
/// taken.
fn take_while<F>(pred: F) -> impl Fn(&[u8]) -> ParseResult<&[u8]>
where
    F: Fn(u8) -> bool,
{
    move |input: &[u8]| match input.iter().position(|byte: &u8| !pred(*byte)) {
        Some(pos) => Ok((&input[pos..], &input[..pos])),
        None => Ok((&[], input)),
    }
}

/// Takes a single byte that satisfies the predicate function.
fn satisfy<F>(pred: F) -> impl Fn(&[u8]) -> ParseResult<u8>
where
    F: Fn(u8) -> bool,
{
    move |i: &[u8]| match i.first() {
        Some(byte) if pred(*byte) => Ok((&i[1..], *byte)),
        Some(_) => Err(Error::InvalidCharacter)?,
        None => Err(ParseError::Incomplete),
    }
}

/// Makes a parser optional.
///
/// If the parser fails, the result is None.
fn optional<'a, F, G>(parser: F) -> impl Fn(&'a [u8]) -> ParseResult<'a, Option<G>>
where
    F: Fn(&'a [u8]) -> ParseResult<'a, G>,
    G: 'a,
{
    move |input: &[u8]| {
        Ok(parser(input)
            .map(|p_| { let (i, o) = p_; (i, Some(o)) })
            .unwrap_or((input, None)))
    }
}

/// Checks if a byte is a whitespace character according to IEEE 488.2)
fn is_whitespace(input: u8) -> bool {
    matches!(input, 0u8..=9u8 | 11u8..=32u8)
}

/// Parses whitespace characters.
fn whitespace(input: &[u8]) -> ParseResult<&[u8]> {
    match take_while(is_whitespace)(input) {
        // If no input is remaning, the input is incomplete.
        Ok((r_, t_)) if r_.is_empty() && t_.is_empty() => Err(ParseError::Incomplete),
        // There is only something other than whitespace.
        Ok((_, t_)) if t_.is_empty() => Err(Error::InvalidCharacter)?,
        // There is at least some whitespace.
        Ok(res) => Ok(res),
        // There was another error.
        Err(error) => Err(error),
    }
}

/// Parses a single specific byte.
fn tag(tag: u8) -> impl Fn(&[u8]) -> ParseResult<u8> {
    satisfy(move |byte| byte == tag)
}

/// Parses a sequence of digits.
fn digits(input: &[u8]) -> ParseResult<&[u8]> {
    let (i1, _) = satisfy(|c| c.is_ascii_digit())(input)?;
    let (i2, res) = take_while(|c| c.is_ascii_digit())(i1)?;
    Ok((i2, &input[..res.len() + 1]))
}

/// Parses a program mnemonic (e.g., "SYSTEM").
fn program_mnemonic(input: &[u8]) -> ParseResult<&[u8]> {
    let (i1, _) = satisfy(|c| c.is_ascii_alphabetic())(input)?;
    let (i2, res) = take_while(|c| c.is_ascii_alphanumeric() || c == b'_')(i1)?;
    Ok((i2, &input[..res.len() + 1]))
}

/// Parses a sign character (`+` or `-`).
fn sign(input: &[u8]) -> ParseResult<u8> {
    tag(b'+')(input).or_else(|_e| tag(b'-')(input))
}

/// Parses a label.
fn characters(input: &[u8]) -> ParseResult<Value<'_>> {
    let (input, res) = program_mnemonic(input)?;
    let character_str = str::from_utf8(res)?;
    Ok((input, Value::Characters(character_str)))
}

/// Parses the mantissa part of a decimal number.
fn mantissa(input: &[u8]) -> ParseResult<&[u8]> {
    let (i1, _sign) = optional(sign)(input)?;
    let (i2, d1) = optional(digits)(i1)?;
    let (i3, _decimal) = optional(tag(b'.'))(i2)?;
    let (i4, _d2) = if d1.is_some() {
        optional(digits)(i3)?
    }
    else {
        digits(i3).map(|p_| { let (i, o) = p_; (i, Some(o)) })?
    };
    Ok((i4, &input[..input.len() - i4.len()]))
}

/// Parses the exponent part of a decimal number.
fn exponent(input: &[u8]) -> ParseResult<&[u8]> {
    let (i1, _) = satisfy(|c| c == b'E' || c == b'e')(input)?;
    let (i2, _) = optional(sign)(i1)?;
    let (i3, _) = digits(i2)?;
    Ok((i3, &input[..input.len() - i3.len()]))
}

/// Parses a decimal number.
fn decimal_numeric_program_data(input: &[u8]) -> ParseResult<Value<'_>> {
    let (i1, _) = mantissa(input)?;
    let (i2, _) = optional(exponent)(i1)?;
    let res = str::from_utf8(&input[..input.len() - i2.len()])?;
    Ok((i2, Value::Decimal(res)))
}

/// Parses a hexadecimal number.
fn hexadecimal_numeric_program_data(input: &[u8]) -> ParseResult<Value<'_>> {
    let (i1, _) = tag(b'#')(input)?;
    let (i2, _) = satisfy(|c| c == b'H' || c == b'h')(i1)?;
    let (i3, _) = satisfy(|c| c.is_ascii_hexdigit())(i2)?;
    let (i4, _) = take_while(|c| c.is_ascii_hexdigit())(i3)?;
    let res = str::from_utf8(&i2[..i2.len() - i4.len()])?;
    Ok((i4, Value::Hexadecimal(res)))
}

/// Parses a binary number.
fn binary_numeric_program_data(input: &[u8]) -> ParseResult<Value<'_>> {
    let (i1, _) = tag(b'#')(input)?;
    let (i2, _) = satisfy(|c| c == b'B' || c == b'b')(i1)?;
    let (i3, _) = satisfy(|c| c == b'0' || c == b'1')(i2)?;
    let (i4, _) = take_while(|c| c == b'0' || c == b'1')(i3)?;
    let res = str::from_utf8(&i2[..i2.len() - i4.len()])?;
    Ok((i4, Value::Binary(res)))
}

/// Parses an octal number.
fn octal_numeric_program_data(input: &[u8]) -> ParseResult<Value<'_>> {
    let (i1, _) = tag(b'#')(input)?;
    let (i2, _) = satisfy(|c| c == b'Q' || c == b'q')(i1)?;
    let (i3, _) = satisfy(|c| (b'0'..b'8').contains(&c))(i2)?;
    let (i4, _) = take_while(|c| (b'0'..b'8').contains(&c))(i3)?;
    let res = str::from_utf8(&i2[..i2.len() - i4.len()])?;
    Ok((i4, Value::Octal(res)))
}

/// Parses a single quoted string.
fn single_quoted_string_program_data(input: &[u8]) -> ParseResult<Value<'_>> {
    let (i1, _) = tag(b'\'')(input)?;
    let (i2, res) = take_while(|c| c != b'\'')(i1)?;
    let (i3, _) = tag(b'\'')(i2)?;
    let res = str::from_utf8(res)?;
    Ok((i3, Value::String(res)))
}

/// Parses a double quoted string.
fn double_quoted_string_program_data(input: &[u8]) -> ParseResult<Value<'_>> {
    let (i1, _) = tag(b'"')(input)?;
    let (i2, res) = take_while(|c| c != b'"')(i1)?;
    let (i3, _) = tag(b'"')(i2)?;
    let res = str::from_utf8(res)?;
    Ok((i3, Value::String(res)))
}

/// Parses arbitrary 8 bit binary data.
fn arbitrary_program_data(input: &[u8]) -> ParseResult<Value<'_>> {
    let (i1, _) = tag(b'#')(input)?;
    let (i2, digits) = satisfy(|c| (b'1'..b'9').contains(&c))(i1)
        .map(|p_| { let (i, value) = p_; (i, (value - b'0') as usize) })?;

    if i2.len() < digits {
        return Err(ParseError::Incomplete);
    }

    let (i3, count) = (&i2[digits..], &i2[..digits]);
    let count = str::from_utf8(count).or(Err(Error::CommandError))?;
    let count = usize::from_str_radix(count, 10)?;

    if i3.len() < count {
        Err(ParseError::Incomplete)
    }
    else {
        let value = &i3[..count];
        let remaining = &i3[count..];
        Ok((remaining, Value::Arbitrary(value)))
    }
}

/// Parses a header separator (colon with optional whitespace).
fn header_separator(input: &[u8]) -> ParseResult<()> {
    let (input, _) = optional(whitespace)(input)?;
    let (input, _) = tag(b':')(input).map_err(|_e| Error::HeaderSeparatorError)?;
    let (input, _) = optional(whitespace)(input)?;
    Ok((input, ()))
}

/// Parses a common command program header (e.g., "*IDN").
fn common_command_program_header(
    root: &'static Node,
) -> impl Fn(&[u8]) -> ParseResult<(&'static Node, Option<&'static Node>)> {
    move |input: &[u8]| {
        let (i1, _) = tag(b'*')(input).map_err(|_e| Error::UndefinedHeader)?;
        let (i2, res) = program_mnemonic(i1)?;
        let name = &input[0..res.len() + 1]; // Include the asterisk in the name
        let node = root
            .child(str::from_utf8(name)?)
            .ok_or(Error::UndefinedHeader)?;

        Ok((i2, (node, None)))
    }
}

/// Parses a compound command program header (e.g., "SYST:ERR").
#[verifier::exec_allows_no_decreases_clause]
fn compound_command_program_header(
    root: &'static Node, header: &'static Node,
) -> impl Fn(&[u8]) -> ParseResult<(&'static Node, Option<&'static Node>)> {
    move |mut input: &[u8]| {
        let mut header = header;

        // Check if the command starts with a colon.
        let (i1, root_command) = optional(header_separator)(input)?;

        // If true, we start with the root node.
        let mut node = if root_command.is_some() { root } else { header };

        let (i2, res) = program_mnemonic(i1)?;
        let name = str::from_utf8(res)?;
        node = node.child(name).ok_or(Error::UndefinedHeader)?;
        input = i2;

        loop {
            let i = match header_separator(input) {
                Ok((input, _)) => input,
                Err(ParseError::SoftError(_)) => break,
                Err(e) => return Err(e),
            };

            let (i, res) = program_mnemonic(i)?;
            let name = str::from_utf8(res)?;
            header = node;
            node = node.child(name).ok_or(Error::UndefinedHeader)?;
            input = i;
        }

        Ok((input, (node, Some(header))))
    }
}

/// Parses the command program header (both common and compound).
fn command_program_header(
    root: &'static Node, header: &'static Node,
) -> impl Fn(&[u8]) -> ParseResult<(&'static Node, Option<&'static Node>)> {
    move |input: &[u8]| {
        compound_command_program_header(root, header)(input)
            .or_else(|_e| common_command_program_header(root)(input))
    }
}

/// Parses an argument separator (comma with optional whitespace).
fn argument_separator(input: &[u8]) -> ParseResult<()> {
    let (input, _) = optional(whitespace)(input)?;
    let (input, _) = tag(b',')(input).map_err(|_e| Error::InvalidSeparator)?;
    let (input, _) = optional(whitespace)(input)?;
    Ok((input, ()))
}

/// Parses an argument value.
fn argument(input: &[u8]) -> ParseResult<Value<'_>> {
    characters(input)
        .or_else(|_e| decimal_numeric_program_data(input))
        .or_else(|_e| hexadecimal_numeric_program_data(input))
        .or_else(|_e| binary_numeric_program_data(input))
        .or_else(|_e| octal_numeric_program_data(input))
        .or_else(|_e| single_quoted_string_program_data(input))
        .or_else(|_e| double_quoted_string_program_data(input))
        .or_else(|_e| arbitrary_program_data(input))
}

/// Parses multiple arguments separated by commas.
#[verifier::exec_allows_no_decreases_clause]
fn arguments<'a, 'b>(
    args: &'b mut Vec<Value<'a>, MAX_ARGS>, mut input: &'a [u8]
) -> ParseResult<'a, ()> {
    {
        let (i, arg) = argument(input)?;
        args.push(arg).unwrap();
        input = i;

        loop {
            let i = match argument_separator(input) {
                Ok((input, _)) => input,
                Err(ParseError::SoftError(_)) => break,
                e => return e,
            };

            let (i, arg) = argument(i)?;
            args.push(arg)
                .or(Err(Error::UnexpectedNumberOfParameters))?;
            input = i;
        }

        Ok((input, ()))
    }
}

/// Parses a SCPI command call.
pub fn parse<'a>(
    root: &'static Node, header: &'static Node, input: &'a [u8],
) -> ParseResult<'a, Option<CommandCall<'a>>> {
    // Skip optional whitespace
    let (input, _) = optional(whitespace)(input)?;
    let (input, _terminator) = optional(tag(b'\n'))(input)?;

    if _terminator.is_some() {
        return Ok((input, None));
    }

    let (input, (node, header)) = command_program_header(root, header)(input)?;

    let (input, query) = tag(b'?')(input)
        .map(|p_| { let (i, _) = p_; (i, true) })
        .unwrap_or_else(|_e| (input, false));

    let (input, has_args) = match whitespace(input) {
        Ok((input, _)) => (input, true),
        Err(ParseError::SoftError(_)) => (input, false),
        Err(e) => return Err(e),
    };

    let mut args = Vec::new();
    let input = if has_args {
        match arguments(&mut args, input) {
            Ok((i, _)) => i,
            Err(ParseError::SoftError(_)) => input,
            Err(e) => return Err(e),
        }
    }
    else {
        input
    };

    // Skip optional whitespace
    let (input, _) = optional(whitespace)(input)?;

    let (input, terminated) = tag(b'\n')(input)
        .map(|p_| { let (i, _) = p_; (i, true) })
        .or_else(|_e| tag(b';')(input).map(|p_| { let (i, _) = p_; (i, false) }))?;

    Ok((input, Some(CommandCall {
        node,
        header,
        query,
        args,
        terminated,
    })))
}


} // verus!
fn main(){}
