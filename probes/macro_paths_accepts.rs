use vstd::prelude::*;
verus! {
#[derive(Debug, Clone, PartialEq)]
pub struct CommandPart {
    pub optional: bool,
    pub short: String,
    pub long: String,
}

#[derive(Debug, Clone)]
pub struct Command {
    pub parts: Vec<CommandPart>,
    query: bool,
}

pub type CommandPath = Vec<String>;

impl Command {
    pub fn is_query(&self) -> bool {
        self.query
    }

    pub fn paths(&self) -> Vec<CommandPath> {
        let mut paths: Vec<CommandPath> = vec![vec![]];

        for part in &self.parts {
            let mut new_paths: Vec<CommandPath> = Vec::new();

            for path in &mut paths {
                let mut long_path = path.clone();
                long_path.push(part.long.clone());
                new_paths.push(long_path);

                if part.short != part.long {
                    let mut short_path = path.clone();
                    short_path.push(part.short.clone());
                    new_paths.push(short_path);
                }

                if part.optional {
                    new_paths.push(path.clone());
                }
            }

            paths = new_paths;
        }

        paths
    }
}
}
fn main(){}
