use vstd::prelude::*;
use vstd::std_specs::iter::IteratorSpec;
verus! {

pub assume_specification<'a, T, P: FnMut(&'a T) -> bool>[ <core::slice::Iter<'a, T> as Iterator>::position ](it: &mut core::slice::Iter<'a, T>, predicate: P) -> (r: Option<usize>) where core::slice::Iter<'a, T>: Sized,
    requires
        forall|x: &'a T| predicate.requires((x,)),
    ensures
        match r {
            Some(p) => p < old(it).remaining().len()
                && predicate.ensures((old(it).remaining()[p as int],), true)
                && forall|j: int| 0 <= j < p ==> predicate.ensures((#[trigger] old(it).remaining()[j],), false),
            None => forall|j: int| 0 <= j < old(it).remaining().len() ==> predicate.ensures((#[trigger] old(it).remaining()[j],), false),
        };

pub enum Ev { Read(int), ReadErr, Write(Seq<u8>), WriteErr, Flush, FlushErr }

pub mod heapless {
  use vstd::prelude::*;
  #[verifier::external_body]
  #[verifier::reject_recursive_types(T)]
  pub struct Vec<T, const N: usize> { x: core::marker::PhantomData<T> }
  impl<T, const N: usize> Vec<T, N> {
    pub uninterp spec fn view(&self) -> Seq<T>;
    #[verifier::external_body] pub fn new() -> (r: Self) ensures r.view().len() == 0 { unimplemented!() }
    #[verifier::external_body] pub fn is_empty(&self) -> (r: bool) ensures r == (self.view().len() == 0) { unimplemented!() }
    #[verifier::external_body] pub fn clear(&mut self) ensures final(self).view().len() == 0 { unimplemented!() }
  }
  impl<const N: usize> core::ops::Deref for Vec<u8, N> { type Target = [u8];
     #[verifier::external_body] fn deref(&self) -> (r: &[u8]) ensures r@ == self.view() { unimplemented!() } }
}

pub trait Adapter {
    type Error;
    spec fn trace(&self) -> Seq<Ev>;

    fn read(&mut self, dst: &mut [u8]) -> (r: Result<usize, Self::Error>)
        ensures
            final(dst)@.len() == old(dst)@.len(),
            match r {
                Ok(n) => n <= old(dst)@.len() && final(self).trace() == old(self).trace().push(Ev::Read(n as int)),
                Err(_) => final(self).trace() == old(self).trace().push(Ev::ReadErr),
            };
    fn write(&mut self, src: &[u8]) -> (r: Result<(), Self::Error>)
        ensures match r {
                Ok(_) => final(self).trace() == old(self).trace().push(Ev::Write(src@)),
                Err(_) => final(self).trace() == old(self).trace().push(Ev::WriteErr),
            };
    fn flush(&mut self) -> (r: Result<(), Self::Error>)
        ensures match r {
                Ok(_) => final(self).trace() == old(self).trace().push(Ev::Flush),
                Err(_) => final(self).trace() == old(self).trace().push(Ev::FlushErr),
            };
}

pub open spec fn is_suffix(a: Seq<u8>, b: Seq<u8>) -> bool { a.len() <= b.len() && a == b.subrange(b.len() - a.len(), b.len() as int) }

/// trace well-formedness for C10: a Write is always immediately followed by Flush (or is the failing last event); a failing event is last
pub open spec fn last_is_err(t: Seq<Ev>) -> bool { t.len() > 0 && (t.last() is ReadErr || t.last() is WriteErr || t.last() is FlushErr) }

pub trait Interface {
    fn run<'a, const M: usize>(&mut self, input: &'a [u8], response: &mut heapless::Vec<u8, M>) -> (r: &'a [u8])
        ensures is_suffix(r@, input@);

    #[verifier::exec_allows_no_decreases_clause]
    fn process<const N: usize, A: Adapter>(&mut self, adapter: &mut A) -> (res: Result<(), A::Error>)
        ensures res is Err, last_is_err(final(adapter).trace()),
    {
        let mut cmd_buf = [0u8; N];
        let mut res_buf: heapless::Vec<u8, N> = heapless::Vec::new();

        let mut proc_offset = 0;
        let mut read_offset = 0;

        loop
            invariant proc_offset <= read_offset, read_offset < N || N == 0 && read_offset == 0, res_buf.view().len() == 0, cmd_buf@.len() == N,
        {
            let count = adapter.read(&mut cmd_buf[read_offset..])?;
            let read_end = read_offset + count;

            // Find the first terminator in the buffer starting from the last read position.
            while let Some(position) = cmd_buf[read_offset..read_end]
                .iter()
                .position(|b| *b == b'\n')
                invariant proc_offset <= read_offset <= read_end <= N, res_buf.view().len() == 0, cmd_buf@.len() == N,
                decreases read_end - read_offset,
            {
                let terminator_pos = read_offset + position;
                let data = &cmd_buf[proc_offset..=terminator_pos];

                let remaining = self.run(data, &mut res_buf);

                if !res_buf.is_empty() {
                    adapter.write(&res_buf)?;
                    adapter.flush()?;
                    res_buf.clear();
                }

                // Update the offset to the position up to where the data has been processed.
                if !remaining.is_empty() {
                    proc_offset = proc_offset + data.len() - remaining.len();
                    read_offset = terminator_pos + 1;
                }
                else {
                    proc_offset = terminator_pos + 1;
                    read_offset = proc_offset;
                }
            }

            read_offset = read_end;

            // Ensure `read_from` does not exceed the buffer length
            if read_offset >= cmd_buf.len() {
                read_offset = 0;
                proc_offset = 0;
            }
            // If there is unprocessed data, shift it to the beginning of the buffer.
            else if proc_offset > 0 {
                cmd_buf.copy_within(proc_offset..read_end, 0);
                read_offset -= proc_offset;
                proc_offset = 0;
            }
        }
    }
}

} // verus!
fn main(){}
