use vstd::prelude::*;
verus! {
pub open spec fn run_len(s: Seq<u8>, p: spec_fn(u8) -> bool) -> nat
    decreases s.len()
{
    if s.len() > 0 && p(s[0]) { 1 + run_len(s.subrange(1, s.len() as int), p) } else { 0 }
}

pub proof fn run_len_bound(s: Seq<u8>, p: spec_fn(u8) -> bool)
    ensures run_len(s, p) <= s.len()
    decreases s.len()
{
    if s.len() > 0 && p(s[0]) { run_len_bound(s.subrange(1, s.len() as int), p); }
}

/// C12 building block: a scan that stopped before the end of x is unaffected by any continuation y.
pub proof fn run_len_stable(x: Seq<u8>, y: Seq<u8>, p: spec_fn(u8) -> bool)
    requires run_len(x, p) < x.len(),
    ensures run_len(x + y, p) == run_len(x, p)
    decreases x.len()
{
    if x.len() > 0 && p(x[0]) {
        let x1 = x.subrange(1, x.len() as int);
        assert((x + y).subrange(1, (x + y).len() as int) =~= x1 + y);
        run_len_stable(x1, y, p);
    } else {
        assert((x + y)[0] == x[0]);
    }
}

pub enum SRes { Acc(nat), Rej, Inc }

pub open spec fn is_digit(b: u8) -> bool { 48 <= b <= 57 }

pub open spec fn spec_digits(s: Seq<u8>) -> SRes {
    if s.len() == 0 { SRes::Inc }
    else if !is_digit(s[0]) { SRes::Rej }
    else { SRes::Acc(1 + run_len(s.subrange(1, s.len() as int), |b: u8| is_digit(b))) }
}

pub proof fn digits_accept_stable(x: Seq<u8>, y: Seq<u8>)
    requires spec_digits(x) matches SRes::Acc(n) && n < x.len(),
    ensures spec_digits(x + y) == spec_digits(x)
{
    let x1 = x.subrange(1, x.len() as int);
    assert((x + y).subrange(1, (x + y).len() as int) =~= x1 + y);
    assert((x + y)[0] == x[0]);
    run_len_stable(x1, y, |b: u8| is_digit(b));
}

pub proof fn digits_reject_stable(x: Seq<u8>, y: Seq<u8>)
    requires spec_digits(x) is Rej,
    ensures spec_digits(x + y) is Rej
{
    assert((x + y)[0] == x[0]);
}
} // verus!
fn main() {}
