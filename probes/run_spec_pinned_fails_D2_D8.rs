use vstd::prelude::*;
verus! {
pub type CommandId = usize;
#[derive(Clone, Copy, PartialEq, Debug)]
pub enum Error { UndefinedHeader, InvalidCharacter, SyntaxError, TooMuchData }
pub enum Value<'a> { String(&'a str), Arbitrary(&'a [u8]) }
pub mod tree { pub struct Node { pub children: &'static [(&'static str, &'static Node)], pub command: Option<usize>, pub query: Option<usize> } }
use tree::Node;
#[derive(Debug)]
pub enum ParseError { SoftError(Option<Error>), FatalError(Error), Incomplete }

pub open spec fn err_of(p: ParseError) -> Error {
    match p { ParseError::SoftError(Some(e)) => e, ParseError::SoftError(None) => Error::SyntaxError, ParseError::FatalError(e) => e, ParseError::Incomplete => Error::SyntaxError }
}
impl vstd::std_specs::convert::FromSpecImpl<ParseError> for Error {
    open spec fn obeys_from_spec() -> bool { true }
    open spec fn from_spec(v: ParseError) -> Error { err_of(v) }
}
impl From<ParseError> for Error {
    fn from(value: ParseError) -> (r: Self) ensures r == err_of(value) {
        match value {
            ParseError::SoftError(error) => match error { Some(e) => e, None => Error::SyntaxError },
            ParseError::FatalError(error) => error,
            ParseError::Incomplete => Error::SyntaxError,
        }
    }
}
pub struct CommandCall<'a> { pub node: &'static Node, pub header: Option<&'static Node>, pub query: bool, pub args: &'a [Value<'a>], pub terminated: bool }

// ---------------- spec library (property-level)
pub enum Ev { Exec(usize), Err(Error) }
pub struct SCall { pub node: &'static Node, pub header: Option<&'static Node>, pub query: bool, pub terminated: bool }
pub enum SP { Acc { consumed: nat, call: Option<SCall> }, Rej(ParseError), Inc }
pub uninterp spec fn spec_parse(root: &'static Node, hdr: &'static Node, s: Seq<u8>) -> SP;
pub open spec fn scall(c: &CommandCall) -> SCall { SCall { node: c.node, header: c.header, query: c.query, terminated: c.terminated } }
pub open spec fn is_suffix(a: Seq<u8>, b: Seq<u8>) -> bool { a.len() <= b.len() && a =~= b.subrange(b.len() - a.len(), b.len() as int) }
pub type Orc = spec_fn(Seq<Ev>, usize) -> Option<Error>;

pub open spec fn first_nl(s: Seq<u8>) -> Option<nat> decreases s.len() {
    if s.len() == 0 { None } else if s[0] == 10 { Some(0nat) } else { match first_nl(s.skip(1)) { Some(k) => Some(k + 1), None => None } }
}
pub proof fn first_nl_bound(s: Seq<u8>) ensures first_nl(s) matches Some(k) ==> k < s.len() decreases s.len() { if s.len() > 0 && s[0] != 10 { first_nl_bound(s.skip(1)); } }

pub open spec fn spec_execute(c: SCall, log: Seq<Ev>, orc: Orc) -> (Seq<Ev>, Result<(), Error>) {
    let slot = if c.query { c.node.query } else { c.node.command };
    match slot {
        None => (log, Err(Error::UndefinedHeader)),
        Some(id) => (log.push(Ev::Exec(id)), match orc(log, id) { Some(e) => Err(e), None => Ok(()) }),
    }
}
/// C02 + C06, written from the property statements.
pub open spec fn spec_run(root: &'static Node, hdr: &'static Node, s: Seq<u8>, log: Seq<Ev>, orc: Orc) -> (Seq<Ev>, nat)
    decreases s.len()
{
    if s.len() == 0 { (log, 0nat) } else {
        match spec_parse(root, hdr, s) {
            SP::Inc => (log, s.len()),
            SP::Rej(e) => {
                let log1 = log.push(Ev::Err(err_of(e)));
                match first_nl(s) {
                    Some(k) => if k < s.len() { spec_run(root, root, s.skip((k + 1) as int), log1, orc) } else { (log1, s.len()) },
                    None => (log1, s.len()),
                }
            },
            SP::Acc { consumed, call } => if !(1 <= consumed <= s.len()) { (log, s.len()) } else {
                match call {
                    None => spec_run(root, root, s.skip(consumed as int), log, orc),
                    Some(c) => {
                        let (l1, r) = spec_execute(c, log, orc);
                        let l2 = match r { Err(e) => l1.push(Ev::Err(e)), Ok(_) => l1 };
                        let h = if c.terminated { root } else { match c.header { Some(h) => h, None => hdr } };
                        spec_run(root, h, s.skip(consumed as int), l2, orc)
                    }
                }
            },
        }
    }
}

pub mod parser {
  use super::*;
  #[verifier::external_body]
  pub fn parse<'a>(root: &'static Node, header: &'static Node, input: &'a [u8]) -> (r: Result<(&'a [u8], Option<CommandCall<'a>>), ParseError>)
    ensures match r {
        Ok((rest, call)) => is_suffix(rest@, input@) && rest@.len() < input@.len()
            && spec_parse(root, header, input@) == (SP::Acc { consumed: (input@.len() - rest@.len()) as nat, call: match call { Some(c) => Some(scall(&c)), None => None } }),
        Err(ParseError::Incomplete) => spec_parse(root, header, input@) is Inc,
        Err(e) => spec_parse(root, header, input@) == SP::Rej(e),
    }
  { unimplemented!() }
}

pub trait Write {
    fn write_char(&mut self, c: char) -> (r: Result<(), Error>) ensures r is Ok;
    fn flush(&mut self) -> (r: Result<(), Error>) ensures r is Ok;
}
pub trait ErrorHandler {
    spec fn log(&self) -> Seq<Ev>;
    spec fn root(&self) -> &'static Node;
    spec fn orc(&self) -> Orc;
    fn handle_error(&mut self, _error: Error)
        ensures final(self).log() == old(self).log().push(Ev::Err(_error)), final(self).root() == old(self).root(), final(self).orc() == old(self).orc();
}
pub trait Interface: ErrorHandler {
    fn root_node(&self) -> (r: &'static tree::Node) ensures r == self.root();
    fn execute_command<'a>(&'a mut self, command_id: CommandId, args: &[Value<'a>], response: &mut impl Write) -> (r: Result<(), Error>)
        ensures final(self).log() == old(self).log().push(Ev::Exec(command_id)), final(self).root() == old(self).root(), final(self).orc() == old(self).orc(),
            r == (match (old(self).orc())(old(self).log(), command_id) { Some(e) => Err::<(), Error>(e), None => Ok(()) });
    #[doc(hidden)]
    fn execute(
        &mut self, call: &CommandCall<'_>, response: &mut impl Write,
    ) -> (r: Result<(), Error>)
        ensures
            final(self).root() == old(self).root(), final(self).orc() == old(self).orc(),
            final(self).log() == spec_execute(scall(call), old(self).log(), old(self).orc()).0,
            r == spec_execute(scall(call), old(self).log(), old(self).orc()).1,
    {
        let command = if call.query {
            call.node.query
        }
        else {
            call.node.command
        };

        if let Some(command) = command {
            self.execute_command(command, &call.args, response)?;

            if call.query {
                response.write_char('\n')?;
                response.flush()?;
            }
        }
        else {
            return Err(Error::UndefinedHeader);
        }

        Ok(())
    }
    #[verifier::loop_isolation(false)]
    fn run<'a>(&mut self, mut input: &'a [u8], response: &mut impl Write) -> (r: &'a [u8])
        ensures
            is_suffix(r@, input@),
            final(self).root() == old(self).root(), final(self).orc() == old(self).orc(),
            (final(self).log(), r@.len() as nat) == spec_run(old(self).root(), old(self).root(), input@, old(self).log(), old(self).orc()),
    {
        let ghost input0 = input@;
        let ghost log0 = self.log();
        let ghost root = self.root();
        let ghost orc = self.orc();
        let mut header = self.root_node();

        while !input.is_empty()
            invariant
                is_suffix(input@, input0), self.root() == root, self.orc() == orc,
                spec_run(root, root, input0, log0, orc) == spec_run(root, header, input@, self.log(), orc),
            decreases input@.len(),
        {
            let ghost in_s = input@; let ghost log_s = self.log(); let ghost hdr_s = header;
            let result = parser::parse(self.root_node(), header, input);

 
            if let Err(ParseError::Incomplete) = result {
                return input;
            } 
            else if let Err(error) = result {
                self.handle_error(error.into());
                return input;
            }

            let (i, call) = result.unwrap();
            let ghost call_s: Option<SCall> = match &call { Some(c) => Some(scall(c)), None => None };

            if let Some(call) = call {
                if let Err(error) = self.execute(&call, response) {
                    self.handle_error(error);
                }

                if call.terminated {
                    // Reset the header to the root node if a call is ended with a terminator.
                    header = self.root_node();
                }
                else if let Some(call_header) = call.header {
                    // Update the current header, if the current command is not a common command.
                    header = call_header;
                }
            }

            proof {
                let consumed = (in_s.len() - i@.len()) as nat;
                assert(i@ =~= in_s.skip(consumed as int));
                assert(spec_parse(root, hdr_s, in_s) is Acc);
                assert(spec_parse(root, hdr_s, in_s)->consumed == consumed);
                assert(1 <= consumed <= in_s.len());
                assert(in_s.len() > 0);
                assert(spec_parse(root, hdr_s, in_s)->call == call_s);
                match call_s {
                    None => {
                        assert(spec_run(root, hdr_s, in_s, log_s, orc) == spec_run(root, root, in_s.skip(consumed as int), log_s, orc));
                    },
                    Some(c) => {
                        let (l1, r) = spec_execute(c, log_s, orc);
                        let l2 = match r { Err(e) => l1.push(Ev::Err(e)), Ok(_) => l1 };
                        assert(self.log() == l2);
                        let h = if c.terminated { root } else { match c.header { Some(h) => h, None => hdr_s } };
                        assert(header == h);
                        assert(spec_run(root, hdr_s, in_s, log_s, orc) == spec_run(root, h, in_s.skip(consumed as int), l2, orc));
                    },
                }
            }
            input = i;
        }
        &[][..]
    }
}
} // verus!
fn main(){}
