use vstd::prelude::*;
verus! {
#[derive(Clone, Copy)]
pub enum Error { TooMuchData, SystemError }

pub trait Write {
    spec fn bytes(&self) -> Seq<u8>;
    spec fn flushes(&self) -> nat;
    fn write_char(&mut self, c: char) -> (r: Result<(), Error>)
        ensures r is Ok ==> final(self).bytes() == old(self).bytes().push(c as u8), final(self).flushes() == old(self).flushes();
    fn write_str(&mut self, s: &str) -> (r: Result<(), Error>)
        ensures r is Ok ==> final(self).bytes() == old(self).bytes() + str_bytes(s), final(self).flushes() == old(self).flushes();
}
pub uninterp spec fn str_bytes(s: &str) -> Seq<u8>;
pub uninterp spec fn dec(v: int) -> Seq<u8>;

pub enum FmtLit { Display, QuotedDisplay }
pub mod fmt_model {
    use super::*;
    #[verifier::external_body]
    pub fn write_display_i32<W: Write>(f: &mut W, v: &i32) -> (r: Result<(), Error>)
        ensures r is Ok ==> final(f).bytes() == old(f).bytes() + dec(*v as int), final(f).flushes() == old(f).flushes()
    { unimplemented!() }
}

pub trait Response {
    spec fn enc(&self) -> Seq<u8>;
    fn write_response<W: Write>(&self, f: &mut W) -> (r: Result<(), Error>)
        ensures r is Ok ==> final(f).bytes() == old(f).bytes() + self.enc(), final(f).flushes() == old(f).flushes();
}

impl Response for bool {
    open spec fn enc(&self) -> Seq<u8> { if *self { seq![49u8] } else { seq![48u8] } }
    fn write_response<W: Write>(&self, f: &mut W) -> Result<(), Error> {
        match self {
            true => f.write_char('1'),
            false => f.write_char('0'),
        }
    }
}
impl Response for i32 {
    open spec fn enc(&self) -> Seq<u8> { dec(*self as int) }
    fn write_response<W: Write>(&self, f: &mut W) -> Result<(), Error> {
        fmt_model::write_display_i32(f, self)
    }
}
impl<A, B> Response for (A, B)
where
    A: Response,
    B: Response,
{
    open spec fn enc(&self) -> Seq<u8> { self.0.enc() + seq![44u8] + self.1.enc() }
    fn write_response<W: Write>(&self, f: &mut W) -> Result<(), Error> {
        self.0.write_response(f)?;
        f.write_char(',')?;
        self.1.write_response(f)
    }
}
pub open spec fn join(parts: Seq<Seq<u8>>) -> Seq<u8> decreases parts.len() {
    if parts.len() == 0 { seq![] } else if parts.len() == 1 { parts[0] } else { join(parts.drop_last()) + seq![44u8] + parts.last() }
}
}
fn main(){}
