use vstd::prelude::*;
use vstd::std_specs::iter::IteratorSpec;
verus! {

pub enum PErr { Soft, Fatal, Incomplete }
type ParseResult<'a, T> = Result<(&'a [u8], T), PErr>;

pub open spec fn idx_probe(j: int) -> bool { true }

pub assume_specification<'a, T, P: FnMut(&'a T) -> bool>[ <core::slice::Iter<'a, T> as Iterator>::position ](it: &mut core::slice::Iter<'a, T>, predicate: P) -> (r: Option<usize>) where core::slice::Iter<'a, T>: Sized,
    requires
        forall|x: &'a T| predicate.requires((x,)),
    ensures
        match r {
            Some(p) => p < old(it).remaining().len()
                && predicate.ensures((old(it).remaining()[p as int],), true)
                && forall|j: int| #![trigger idx_probe(j)] 0 <= j < p ==> predicate.ensures((old(it).remaining()[j],), false),
            None => forall|j: int| #![trigger idx_probe(j)] 0 <= j < old(it).remaining().len() ==> predicate.ensures((old(it).remaining()[j],), false),
        };

pub assume_specification[ u8::is_ascii_digit ](c: &u8) -> (r: bool) ensures r == (48 <= *c <= 57);

// ---- spec library
pub open spec fn run_len(s: Seq<u8>, p: spec_fn(u8) -> bool) -> nat
    decreases s.len()
{
    if s.len() > 0 && p(s[0]) { 1 + run_len(s.subrange(1, s.len() as int), p) } else { 0 }
}

pub proof fn run_len_char(s: Seq<u8>, p: spec_fn(u8) -> bool, n: nat)
    requires n <= s.len(), forall|j: int| 0 <= j < n ==> p(#[trigger] s[j]), n < s.len() ==> !p(s[n as int]),
    ensures run_len(s, p) == n
    decreases n
{
    if n == 0 { } else {
        let t = s.subrange(1, s.len() as int);
        assert forall|j: int| 0 <= j < n - 1 implies p(#[trigger] t[j]) by { assert(t[j] == s[j+1]); }
        if n - 1 < t.len() { assert(t[n - 1] == s[n as int]); }
        run_len_char(t, p, (n - 1) as nat);
    }
}

pub open spec fn tw_post(pred: spec_fn(u8) -> bool, i: Seq<u8>, r: ParseResult<&[u8]>) -> bool {
    match r {
        Ok((rest, taken)) => taken@ =~= i.subrange(0, run_len(i, pred) as int) && rest@ =~= i.subrange(run_len(i, pred) as int, i.len() as int),
        Err(_) => false,
    }
}

fn take_while<F>(pred: F, Ghost(sp): Ghost<spec_fn(u8) -> bool>) -> (ret: impl Fn(&[u8]) -> ParseResult<&[u8]>)
where
    F: Fn(u8) -> bool,
    requires forall|b: u8| pred.requires((b,)), forall|b: u8, r: bool| pred.ensures((b,), r) ==> r == sp(b),
    ensures
        forall|i: &[u8]| ret.requires((i,)),
        forall|i: &[u8], r: ParseResult<&[u8]>| ret.ensures((i,), r) ==> tw_post(sp, i@, r),
{
    move |input: &[u8]| -> (r: ParseResult<&[u8]>)
      ensures tw_post(sp, input@, r)
    {
      match input.iter().position(|byte: &u8| -> (b: bool) ensures b == !sp(*byte) { !pred(*byte) }) {
        Some(pos) => {
            proof {
                assert forall|j: int| 0 <= j < pos implies sp(#[trigger] input@[j]) by { assert(idx_probe(j)); }
                run_len_char(input@, sp, pos as nat);
            }
            Ok((&input[pos..], &input[..pos]))
        },
        None => {
            proof { assert forall|j: int| 0 <= j < input@.len() implies sp(#[trigger] input@[j]) by { assert(idx_probe(j)); } run_len_char(input@, sp, input@.len()); }
            Ok((&[], input))
        },
      }
    }
}

} // verus!
fn main() {}
