"""Unit templates (.vrs) -> generated single-file Verus input + line map."""
import os, re, json, hashlib
from .extract import Source, AnchorLost
from .weave import (Directive, weave_fn, line_origins, BASIC_RULES, Unsupported, TAG_RE)
from . import rules as extra_rules

DIR_RE = re.compile(r"^#([a-z][a-z-]*)\b(.*)$")


_EXPANDED = {}


def expand_sample(name, repo_root, verif_root):
    """compile samples/<name> against the repo's current working tree and return rustc's macro-expanded source"""
    import subprocess, shutil
    key = (name, repo_root)
    if key in _EXPANDED:
        return _EXPANDED[key]
    src = os.path.join(verif_root, "samples", name)
    tag = hashlib.sha1(repo_root.encode()).hexdigest()[:8]
    work = os.path.join(os.environ.get("VX_BUILD", os.path.join(verif_root, "build")), "samples", f"{name}-{tag}")
    os.makedirs(os.path.join(work, "src"), exist_ok=True)
    open(os.path.join(work, "Cargo.toml"), "w").write(open(os.path.join(src, "Cargo.toml.in")).read().replace("@REPO@", repo_root))
    shutil.copy(os.path.join(src, "src", "lib.rs"), os.path.join(work, "src", "lib.rs"))
    lock = os.path.join(repo_root, "Cargo.lock")
    if os.path.exists(lock):
        shutil.copy(lock, os.path.join(work, "Cargo.lock"))
    env = dict(os.environ, CARGO_NET_OFFLINE="true")
    cmd = ["cargo", "+nightly", "rustc", "--offline", "--lib", "--target-dir", os.path.join(verif_root, "build", "xt"), "--", "-Zunpretty=expanded"]
    try:
        p = subprocess.run(cmd, cwd=work, env=env, capture_output=True, text=True, timeout=600)
    except subprocess.TimeoutExpired:
        raise ToolError(f"TOOL: expansion of sample {name} timed out")
    if p.returncode != 0 or "fn execute_command" not in p.stdout:
        raise ToolError(f"TOOL: sample {name} does not compile against {repo_root} (the macro rejected it or the crate is broken): {p.stderr[-1500:]}")
    _EXPANDED[key] = p.stdout
    return p.stdout


class ToolError(Exception):
    """exit 2: never an alarm, never a pass"""


class LineInfo:
    __slots__ = ("kind", "item", "repo_file", "repo_line", "tmpl_file", "tmpl_line", "tags", "directive")

    def __init__(self, kind, item=None, repo_file=None, repo_line=None, tmpl_file=None, tmpl_line=None, tags=(), directive=None):
        self.kind, self.item, self.repo_file, self.repo_line = kind, item, repo_file, repo_line
        self.tmpl_file, self.tmpl_line, self.tags, self.directive = tmpl_file, tmpl_line, tuple(tags), directive

    def as_dict(self):
        return {k: getattr(self, k) for k in self.__slots__ if getattr(self, k) not in (None, ())}


class Generated:
    def __init__(self):
        self.lines = []       # text lines
        self.info = []        # LineInfo per line
        self.items = []       # dicts: name, repo_file, repo_line, props, kind
        self.rewrites = []    # (item, rule, what)
        self.clauses = 0

    def emit(self, text, infos):
        ls = text.split("\n")
        assert len(ls) == len(infos), (len(ls), len(infos))
        self.lines.extend(ls)
        self.info.extend(infos)

    def text(self):
        return "\n".join(self.lines) + "\n"


def _tags_of(line):
    m = TAG_RE.search(line)
    if not m:
        return ()
    return tuple(t for t in re.split(r"[ ,]+", m.group(1).strip()) if t)


def build_unit(tmpl_path, repo_root, canary=False, verif_root=None, findings=False):
    verif_root = verif_root or os.path.dirname(os.path.dirname(os.path.abspath(tmpl_path)))
    gen = Generated()
    sources = {}

    def source(rel):
        if rel not in sources:
            if "!" in rel:
                sources[rel] = macro_instance(rel)
                return sources[rel]
            if rel.startswith("@"):
                sources[rel] = Source(rel, expand_sample(rel[1:], repo_root, verif_root))
                gen.rewrites.append({"item": rel, "file": rel, "rule": "EXPAND", "what": f"sample crate samples/{rel[1:]} compiled against {repo_root} with `cargo +nightly rustc -- -Zunpretty=expanded` (the real proc-macro's output)"})
                return sources[rel]
            p = os.path.join(repo_root, rel)
            if not os.path.exists(p):
                raise ToolError(f"TOOL: lost anchor: file {rel} missing")
            sources[rel] = Source(rel, open(p).read())
        return sources[rel]

    def macro_instance(rel):
        """R10: `FILE!MACRO(ARG)` = the body of the single-arm macro_rules MACRO of FILE with its `$x:ty` parameter
        replaced by ARG, provided FILE really invokes `MACRO!(ARG);` (what rustc's expansion produces, textually)."""
        m = re.match(r"^(.*)!([A-Za-z_0-9]+)\((.*)\)$", rel)
        if not m:
            raise ToolError(f"TOOL: bad macro instance syntax {rel}")
        file_rel, mac, arg = m.group(1), m.group(2), m.group(3)
        src = source(file_rel)
        try:
            it = src.find("macro " + mac)
        except AnchorLost as e:
            raise ToolError(f"TOOL: {e}")
        body = src.text[src.toks[it.t_body].end:src.toks[it.t_end].start]
        mm = re.match(r"\s*\(\s*\$([a-z_]+)\s*:\s*ty\s*\)\s*=>\s*\{(.*)\}\s*;?\s*\}?\s*;?\s*$", body, re.S)
        if not mm:
            raise ToolError(f"TOOL: unsupported construct: macro_rules {mac} is not a single `($x:ty) => {{..}}` arm")
        if not re.search(r"\b%s!\(\s*%s\s*\)\s*;" % (re.escape(mac), re.escape(arg)), src.text):
            raise ToolError(f"TOOL: lost anchor: {file_rel} does not invoke {mac}!({arg})")
        inst = re.sub(r"\$%s\b" % mm.group(1), arg, mm.group(2))
        line0 = src.text.count("\n", 0, src.toks[it.t_body].end)
        gen.rewrites.append({"item": rel, "file": file_rel, "rule": "R10", "what": f"macro_rules {mac} instantiated with ${mm.group(1)} = {arg}"})
        vs = Source(file_rel, "\n" * line0 + inst)   # keep line numbers of the macro body
        return vs

    def expand(path, depth=0):
        """read a template with #include expanded everywhere; each line keeps its origin (file, lineno)"""
        if depth > 8:
            raise ToolError(f"TOOL: include depth exceeded at {path}")
        rel_t = os.path.relpath(path, verif_root)
        out = []
        for n, line in enumerate(open(path).read().split("\n")):
            m = DIR_RE.match(line)
            if m and m.group(1) == "include":
                out.extend(expand(os.path.join(verif_root, m.group(2).strip()), depth + 1))
            else:
                out.append((line, rel_t, n + 1))
        if out and out[-1][0] == "":
            out.pop()
        return out

    def process(path, depth=0):
        raw = expand(path)
        default_tags = ()
        i = 0
        while i < len(raw):
            line, rel_t, ln = raw[i]
            m = DIR_RE.match(line)
            if m and m.group(1) == "props" :
                default_tags = tuple(m.group(2).split())
                i += 1
                continue
            if m and m.group(1) == "rest":
                emit_rest(m.group(2).strip(), rel_t, ln)
                i += 1
                continue
            if m and m.group(1) in ("item", "open", "type"):
                # collect block
                kind = m.group(1)
                spec = m.group(2).strip()
                start_line = ln
                block = []
                if kind == "item":
                    i += 1
                    while i < len(raw) and not raw[i][0].startswith("#end"):
                        block.append((raw[i][0], raw[i][2]))
                        i += 1
                    if i >= len(raw):
                        raise ToolError(f"TOOL: {rel_t}:{start_line}: #item without #end")
                emit_item(kind, spec, block, rel_t, start_line)
                i += 1
                continue
            tags = _tags_of(line) or default_tags
            if canary and re.match(r"\s*//\s*CANARY-HERE\s*$", line):
                line = line.replace("// CANARY-HERE", "assert(false); // CANARY lemma")
            gen.emit(line, [LineInfo("tmpl", tmpl_file=rel_t, tmpl_line=ln, tags=tags)])
            i += 1

    emitted = {}   # repo file -> set of top-level item start offsets already emitted

    def emit_rest(spec, rel_t, ln):
        """`#rest <file>`: every top-level const / static / fn / macro-free helper of <file> that no #item extracted.
        Helpers added to the file later are picked up here, without contract (callers then see no postcondition)."""
        container = None
        if "|" in spec:
            spec, container = [x.strip() for x in spec.split("|", 1)]
        src = source(spec)
        done = emitted.get(spec, set())
        if container:
            # members of a trait / impl that no #item names (helpers added later): emitted without contract
            try:
                cont = src.find(container)
            except AnchorLost as e:
                raise ToolError(f"TOOL: {e}")
            for it in src.children(cont):
                if it.kind != "fn" or it.start in done:
                    continue
                emit_item("item", f"{spec} | {container} / fn {it.name}", [], rel_t, ln)
            return
        for it in src.top_items():
            if it.kind not in ("const", "static", "fn"):
                continue
            if it.start in done:
                continue
            if it.kind == "fn" and it.name in ("main",):
                continue
            block = [("#props *", ln)]
            emit_item("item", f"{spec} | {it.kind} {it.name}", [], rel_t, ln)

    def emit_item(kind, spec, block, rel_t, start_line):
        try:
            file_rel, path = [s.strip() for s in spec.split("|", 1)]
        except ValueError:
            raise ToolError(f"TOOL: {rel_t}:{start_line}: bad #{kind} syntax")
        nth = None
        mm = re.match(r"(.*)\s+#(\d+)$", path)
        if mm:
            path, nth = mm.group(1), int(mm.group(2))
        src = source(file_rel)
        try:
            it = src.find(path, nth)
        except AnchorLost as e:
            raise ToolError(f"TOOL: {e}")
        name = path
        emitted.setdefault(file_rel, set()).add(it.start)
        # parse directives
        directives, props, rules, cur = [], (), [], None
        for (l, ln) in block:
            dm = DIR_RE.match(l)
            if dm:
                k, arg = dm.group(1), dm.group(2)
                if k == "props":
                    props = tuple(arg.split()); cur = None
                elif k == "rules":
                    rules = arg.split(); cur = None
                elif k == "name":
                    name = arg.strip(); cur = None
                else:
                    cur = Directive(k, arg, ln)
                    directives.append(cur)
            else:
                if cur is None:
                    if l.strip():
                        raise ToolError(f"TOOL: {rel_t}:{ln}: payload without directive")
                else:
                    cur.payload.append((l, ln))
        real_file = file_rel.split("!")[0]
        item_rec = {"name": name, "repo_file": real_file, "repo_line": it.line, "props": list(props), "kind": it.kind,
                    "tmpl": f"{rel_t}:{start_line}", "under_contract": any(d.kind in ("spec", "loop") for d in directives)}
        gen.items.append(item_rec)
        idx = len(gen.items) - 1
        if kind == "open":
            if it.t_body is None:
                raise ToolError(f"TOOL: #open on bodiless item {path}")
            text = src.text[it.start:src.toks[it.t_body].end]
        else:
            text = it.text
        log = []
        try:
            for r in BASIC_RULES + [extra_rules.r2_closure_params]:
                text = r(text, log)
            for rn in rules:
                text = getattr(extra_rules, rn)(text, log)
        except Unsupported as e:
            raise ToolError(f"TOOL: unsupported construct in {file_rel} {path}: {e}")
        for (rule, what) in log:
            gen.rewrites.append({"item": name, "file": file_rel, "rule": rule, "what": what})
        rewritten = text
        if it.kind == "fn" and kind == "item":
            try:
                new, segs = weave_fn(rewritten, directives, canary=canary, findings=findings)
            except AnchorLost as e:
                raise ToolError(f"TOOL: {e} in {file_rel} {path} ({rel_t}:{start_line})")
            except Unsupported as e:
                raise ToolError(f"TOOL: unsupported construct in {file_rel} {path}: {e}")
            origins = line_origins(new, segs, rewritten)
        else:
            if any(d.kind not in () for d in directives):
                raise ToolError(f"TOOL: {rel_t}:{start_line}: directives on non-fn item")
            new = rewritten
            origins = [("code", k) for k in range(new.count("\n") + 1)]
        infos = []
        new_lines = new.split("\n")
        for k, (okind, ref) in enumerate(origins):
            if okind == "code":
                infos.append(LineInfo("code", item=idx, repo_file=real_file, repo_line=it.line + ref, tags=props))
            elif okind == "woven":
                d = ref
                # template line of this payload line: match by text
                tl = d.lineno
                for (pl, pln) in d.payload:
                    if pl.strip() and pl.strip() == new_lines[k].strip():
                        tl = pln
                        break
                tags = _tags_of(new_lines[k]) or props
                infos.append(LineInfo("woven", item=idx, tmpl_file=rel_t, tmpl_line=tl, tags=tags, directive=d.kind + " " + d.arg.strip(),
                                      repo_file=file_rel, repo_line=it.line))
                if d.kind in ("spec", "loop") and re.search(r"[^\s,]", new_lines[k]) and not re.match(r"\s*(requires|ensures|invariant|decreases|invariant_except_break)\s*$", new_lines[k]):
                    gen.clauses += 1
            else:
                infos.append(LineInfo("blank", item=idx))
        gen.emit(new, infos)

    process(tmpl_path)
    gen.has_findings = any("#finding-" in l for l, _, _ in expand(tmpl_path))
    return gen
