"""Rewrite rules R1..R10 (mechanical, logged) and contract weaving on extracted item text.

Nothing here edits an expression that computes a value, a branch condition, an index or a call
target; the rules are the closed set documented in DESIGN.md section 3.1.
"""
import re
from .rustlex import lex, match_close, norm, code_toks, OPEN, CLOSE
from .extract import AnchorLost


class Unsupported(Exception):
    pass


def apply_edits(text, edits):
    """edits: list of (start, end, replacement); non-overlapping."""
    out, pos = [], 0
    for s, e, r in sorted(edits, key=lambda x: (x[0], x[1])):
        if s < pos:
            raise Unsupported(f"overlapping edits at {s}")
        out.append(text[pos:s])
        out.append(r)
        pos = e
    out.append(text[pos:])
    return "".join(out)


def _nl_pad(orig, repl):
    """keep the number of newlines so that line arithmetic back to /repo stays valid"""
    d = orig.count("\n") - repl.count("\n")
    return repl + ("\n" * d if d > 0 else "")


def _code(toks):
    return [t for t in toks if t.kind not in ("ws", "comment")]


def _next_code(toks, k):
    k += 1
    while k < len(toks) and toks[k].kind in ("ws", "comment"):
        k += 1
    return k


def _prev_code(toks, k):
    k -= 1
    while k >= 0 and toks[k].kind in ("ws", "comment"):
        k -= 1
    return k


# --------------------------------------------------------------------------------------------
# rewrite rules
# --------------------------------------------------------------------------------------------

def r1_async(text, log):
    toks = lex(text)
    edits = []
    for k, t in enumerate(toks):
        if t.kind == "ident" and t.text == "async":
            n = _next_code(toks, k)
            if n < len(toks) and toks[n].text in ("fn", "move", "|", "{"):
                if toks[n].text != "fn":
                    raise Unsupported("async block/closure")
                edits.append((t.start, toks[n].start, ""))
                log.append(("R1", "async fn -> fn"))
        if t.kind == "ident" and t.text == "await":
            p = _prev_code(toks, k)
            if p >= 0 and toks[p].text == ".":
                edits.append((toks[p].start, t.end, ""))
                log.append(("R1", ".await removed"))
    return apply_edits(text, edits)


def r7_cfg_defmt(text, log):
    """remove `#[cfg(feature = "defmt")] <stmt>;` statements and doc comments stay (harmless)."""
    toks = lex(text)
    edits = []
    k = 0
    while k < len(toks):
        t = toks[k]
        if t.kind == "punct" and t.text == "#":
            b = _next_code(toks, k)
            if b < len(toks) and toks[b].text == "[":
                c = match_close(toks, b)
                attr = norm(text[t.start:toks[c].end])
                if attr == norm('#[cfg(feature = "defmt")]'):
                    # statement following: up to ';' at depth 0
                    m = c + 1
                    while m < len(toks):
                        tt = toks[m]
                        if tt.kind == "punct":
                            if tt.text == ";":
                                break
                            if tt.text in OPEN:
                                m = match_close(toks, m)
                        m += 1
                    orig = text[t.start:toks[m].end]
                    edits.append((t.start, toks[m].end, _nl_pad(orig, "")))
                    log.append(("R7", "cfg(feature=defmt) statement removed: " + norm(orig)[:80]))
                    k = m
                elif attr.startswith("# [ doc") or attr.startswith("# [ cfg_attr ( feature = \"defmt\"") or attr == norm('#[cfg(feature = "std")]'):
                    edits.append((t.start, toks[c].end, ""))
                    log.append(("R7", "attribute removed: " + attr))
                    k = c
                elif attr.startswith("# [ derive"):
                    keep = [d for d in ("Debug", "Clone", "Copy", "Default", "PartialEq") if re.search(r"\b%s\b" % d, attr)]
                    rep = "#[derive(%s)]" % ", ".join(keep) if keep else ""
                    edits.append((t.start, toks[c].end, rep))
                    log.append(("R7", f"{attr} -> {rep or 'removed'}"))
                    k = c
        k += 1
    return apply_edits(text, edits)


def r9_impl_trait_params(text, log):
    """`p: &mut impl Tr` in a fn signature -> named generic W<k>_ : Tr appended to the generics."""
    toks = lex(text)
    # locate fn keyword and signature extent
    fk = next((k for k, t in enumerate(toks) if t.kind == "ident" and t.text == "fn"), None)
    if fk is None:
        return text
    nk = _next_code(toks, fk)  # name
    k = _next_code(toks, nk)
    gen_open = gen_close = None
    if toks[k].text == "<":
        gen_open = k
        depth = 0
        while True:
            if toks[k].text == "<":
                depth += 1
            elif toks[k].text == ">" and toks[_prev_code(toks, k)].text != "-":
                depth -= 1
                if depth == 0:
                    break
            k += 1
        gen_close = k
        k = _next_code(toks, k)
    if toks[k].text != "(":
        raise Unsupported("fn signature shape")
    popen, pclose = k, match_close(toks, k)
    edits, names = [], []
    j = popen
    while j < pclose:
        t = toks[j]
        if t.kind == "ident" and t.text == "impl":
            # the bound runs to ',' or ')' at depth 0 (angle-aware)
            m, depth = j + 1, 0
            while m < pclose:
                tt = toks[m].text
                if toks[m].kind == "punct":
                    if tt in "<([":
                        depth += 1
                    elif tt in ">)]" and not (tt == ">" and toks[_prev_code(toks, m)].text == "-"):
                        depth -= 1
                    elif tt == "," and depth == 0:
                        break
                m += 1
            last = _prev_code(toks, m)
            bound = text[toks[_next_code(toks, j)].start:toks[last].end]
            name = f"W{len(names)}_"
            names.append((name, bound))
            edits.append((t.start, toks[last].end, name))
            log.append(("R9", f"impl {bound} -> named generic {name}"))
            j = m
        j += 1
    if not names:
        return text
    decl = ", ".join(f"{n}: {b}" for n, b in names)
    if gen_open is not None:
        last = _prev_code(toks, gen_close)
        sep = "" if toks[last].text == "," or last == gen_open else ", "
        edits.append((toks[gen_close].start, toks[gen_close].start, sep + decl))
    else:
        edits.append((toks[nk].end, toks[nk].end, f"<{decl}>"))
    return apply_edits(text, edits)


def strip_tests(text, log):
    return text


BASIC_RULES = [r7_cfg_defmt, r1_async, r9_impl_trait_params]   # + rules.r2_closure_params, appended by unit.py (import order)


# --------------------------------------------------------------------------------------------
# structure of a fn text: signature, body, loops, closures
# --------------------------------------------------------------------------------------------

class FnShape:
    def __init__(self, text):
        self.text = text
        self.toks = toks = lex(text)
        fk = next((k for k, t in enumerate(toks) if t.kind == "ident" and t.text == "fn"), None)
        if fk is None:
            raise Unsupported("not a fn")
        self.fn_k = fk
        # body: first '{' at depth 0 after fn (parens/brackets skipped)
        k = fk
        self.body_open = None
        self.arrow = None
        self.where_k = None
        while k < len(toks):
            t = toks[k]
            if t.kind == "punct":
                if t.text == "{":
                    self.body_open = k
                    break
                if t.text == ";":
                    break
                if t.text in "([":
                    k = match_close(toks, k)
                    self.params_close = k if self.arrow is None and not hasattr(self, "params_close") else self.params_close
                elif t.text == "-" and toks[k + 1].text == ">" and self.arrow is None and hasattr(self, "params_close"):
                    self.arrow = k
            elif t.kind == "ident" and t.text == "where" and self.where_k is None:
                self.where_k = k
            k += 1
        self.sig_end_k = k  # '{' or ';'
        self.body_close = match_close(toks, self.body_open) if self.body_open is not None else None

    def loops(self):
        """token indices (kw, body_open, body_close) of loops in the body, in source order"""
        res = []
        toks = self.toks
        if self.body_open is None:
            return res
        k = self.body_open + 1
        while k < self.body_close:
            t = toks[k]
            if t.kind == "ident" and t.text in ("while", "loop", "for"):
                p = _prev_code(toks, k)
                if t.text == "for" and toks[p].text in ("impl", ">"):  # `impl X for Y`, HRTB
                    k += 1
                    continue
                m = k + 1
                while m < self.body_close:
                    tt = toks[m]
                    if tt.kind == "punct":
                        if tt.text == "{":
                            break
                        if tt.text in "([":
                            m = match_close(toks, m)
                    m += 1
                res.append((k, m, match_close(toks, m)))
            k += 1
        return res

    def closures(self):
        """(open_bar_k, close_bar_k, body_start_k, body_end_k(exclusive tok idx), is_block)"""
        res = []
        toks = self.toks
        lo = self.body_open + 1 if self.body_open is not None else 0
        hi = self.body_close if self.body_open is not None else len(toks)
        k = lo
        while k < hi:
            t = toks[k]
            if t.kind == "punct" and t.text == "|":
                p = _prev_code(toks, k)
                pt = toks[p].text
                starts = pt in ("(", ",", "=", "move", "{", ";", "return") or (pt == ">" and toks[_prev_code(toks, p)].text == "=")
                if starts:
                    # params end at the next '|'
                    n = _next_code(toks, k)
                    if toks[n].text == "|" and toks[n].start == t.end:
                        c = n  # `||` empty params
                    else:
                        c = k + 1
                        while not (toks[c].kind == "punct" and toks[c].text == "|"):
                            if toks[c].kind == "punct" and toks[c].text in OPEN:
                                c = match_close(toks, c)
                            c += 1
                    b = _next_code(toks, c)
                    if toks[b].text == "{":
                        e = match_close(toks, b) + 1
                        res.append((k, c, b, e, True))
                    else:
                        # expression body: to ',' or closing bracket or ';' at depth 0
                        m = b
                        while m < hi:
                            tt = toks[m]
                            if tt.kind == "punct":
                                if tt.text in OPEN:
                                    m = match_close(toks, m)
                                elif tt.text in CLOSE or tt.text in (",", ";"):
                                    break
                            m += 1
                        res.append((k, c, b, m, False))
                    k = c
            k += 1
        return res

    def find_anchor(self, anchor, nth=None):
        """locate token range whose normalized text equals `anchor` (normalized) inside the body."""
        want = [t.text for t in _code(lex(anchor))]
        ct = [(k, t) for k, t in enumerate(self.toks) if t.kind not in ("ws", "comment")]
        hits = []
        for i in range(len(ct) - len(want) + 1):
            if ct[i][1].text == want[0] and all(ct[i + j][1].text == want[j] for j in range(len(want))):
                k0, k1 = ct[i][0], ct[i + len(want) - 1][0]
                if self.body_open is None or (self.body_open < k0 and k1 < self.body_close):
                    hits.append((k0, k1))
        if not hits:
            raise AnchorLost(f"lost anchor: `{anchor}`")
        if nth is None:
            if len(hits) != 1:
                raise AnchorLost(f"lost anchor: `{anchor}` occurs {len(hits)} times")
            return hits[0]
        if nth > len(hits):
            raise AnchorLost(f"lost anchor: `{anchor}` occurrence {nth} of {len(hits)}")
        return hits[nth - 1]

    def stmt_start(self, k):
        """index of the first token of the statement that contains token k (scan back to ';', '{' or '}' at the same depth)"""
        toks = self.toks
        depth = 0
        m = k - 1
        first = k
        while m > (self.body_open if self.body_open is not None else -1):
            tt = toks[m]
            if tt.kind == "punct":
                if tt.text in CLOSE:
                    if tt.text == "}" and depth == 0:
                        # a block statement ended here — unless it is the `{..}` of a struct literal / closure inside our statement
                        return first
                    depth += 1
                elif tt.text in OPEN:
                    if depth == 0:
                        return first
                    depth -= 1
                elif tt.text == ";" and depth == 0:
                    return first
            if tt.kind not in ("ws", "comment"):
                first = m if depth == 0 else first
            m -= 1
        return first

    def stmt_end(self, k):
        """offset just after the ';' (or block '}' ) that ends the statement containing token k."""
        toks = self.toks
        if toks[k].kind == "punct" and toks[k].text == ";":
            return toks[k].end
        m = k + 1
        while m < len(toks):
            tt = toks[m]
            if tt.kind == "punct":
                if tt.text == ";":
                    return tt.end
                if tt.text in OPEN:
                    m = match_close(toks, m)
                elif tt.text in (")", "]"):
                    pass   # the anchor sits inside a call or index expression: the statement ends further out
                elif tt.text == "}":
                    return toks[_prev_code(toks, m)].end
            m += 1
        raise AnchorLost("statement end not found")


# --------------------------------------------------------------------------------------------
# weaving
# --------------------------------------------------------------------------------------------

class Directive:
    def __init__(self, kind, arg, lineno):
        self.kind, self.arg, self.lineno = kind, arg, lineno
        self.payload = []  # list of (text, template_lineno)

    @property
    def body(self):
        return "\n".join(p for p, _ in self.payload)


TAG_RE = re.compile(r"//:\s*([A-Za-z0-9_ ,]+)\s*$")


def weave_fn(text, directives, canary=False, findings=False):
    """returns (new_text, segs); see line_origins"""
    sh = FnShape(text)
    toks = sh.toks
    ins = []  # (offset, order, text, directive)

    def add(off, s, d, order=0):
        ins.append((off, order, s, d))

    ret_name = None
    has_spec = False
    for d in directives:
        if d.kind == "ret":
            ret_name = d.arg.strip()
    edits = []
    if ret_name:
        if sh.arrow is None:
            raise AnchorLost("`#ret` given but fn has no return type")
        a = _next_code(toks, sh.arrow + 1)
        endk = sh.where_k if sh.where_k is not None else sh.sig_end_k
        last = _prev_code(toks, endk)
        edits.append((toks[a].start, toks[a].start, f"({ret_name}: "))
        edits.append((toks[last].end, toks[last].end, ")"))
    loops = sh.loops()
    closures = sh.closures()
    # `#finding-<kind>` directives carry obligations of recorded known findings: they are woven only in the separate
    # findings pass, so that the main pass shows what is discharged without them
    act = []
    for d in directives:
        if d.kind.startswith("finding-"):
            if findings:
                d2 = Directive(d.kind[len("finding-"):], d.arg, d.lineno)
                d2.payload = d.payload
                act.append(d2)
        else:
            act.append(d)
    directives = act
    for d in directives:
        if d.kind == "ret":
            continue
        if d.kind == "spec":
            last = _prev_code(toks, sh.sig_end_k)
            pre = ""
            if sh.where_k is not None and toks[last].text != ",":
                pre = ","
            add(toks[last].end, pre + "\n" + d.body + "\n", d, order=1)
            has_spec = True
        elif d.kind == "loop":
            parts = d.arg.split()
            n = int(parts[0])
            where = parts[1] if len(parts) > 1 else "spec"
            if n > len(loops):
                raise AnchorLost(f"lost anchor: loop {n} (fn has {len(loops)})")
            kw, bo, bc = loops[n - 1]
            if where == "spec":
                add(toks[_prev_code(toks, bo)].end, "\n" + d.body + "\n", d)
            elif where == "start":
                add(toks[bo].end, "\n" + d.body + "\n", d)
            elif where == "end":
                add(toks[bc].start, "\n" + d.body + "\n", d)
            elif where in ("attr", "before"):
                add(toks[kw].start, d.body + "\n", d)
            elif where == "forname":
                # Verus ghost-iterator name: `for x in EXPR` -> `for x in NAME: EXPR` (spec-only binding)
                k = kw
                while toks[k].text != "in":
                    k += 1
                add(toks[k].end, f" {parts[2]}:", d)
            else:
                raise Unsupported(f"#loop position {where}")
        elif d.kind in ("before", "after", "after-text"):
            m = re.match(r"\s*(?:(\d+)\s+)?`(.*)`\s*$", d.arg, re.S)
            if not m:
                raise Unsupported(f"bad anchor syntax: {d.arg}")
            nth = int(m.group(1)) if m.group(1) else None
            k0, k1 = sh.find_anchor(m.group(2), nth)
            if d.kind == "before":
                add(toks[sh.stmt_start(k0)].start, d.body + "\n", d)
            elif d.kind == "after":
                add(sh.stmt_end(k1), "\n" + d.body, d)
            else:
                add(toks[k1].end, " " + d.body + " ", d)
        elif d.kind == "arm":
            m = re.match(r"\s*(?:(\d+)\s+)?`(.*)`\s*$", d.arg, re.S)
            if not m or not m.group(2).rstrip().endswith("=>"):
                raise Unsupported(f"bad #arm syntax (anchor must end with =>): {d.arg}")
            nth = int(m.group(1)) if m.group(1) else None
            k0, k1 = sh.find_anchor(m.group(2), nth)
            b = _next_code(toks, k1)
            if toks[b].text == "{":
                add(toks[b].end, "\n" + d.body + "\n", d)
            else:
                e = b
                while e < len(toks):
                    tt = toks[e]
                    if tt.kind == "punct":
                        if tt.text in OPEN:
                            e = match_close(toks, e)
                        elif tt.text in CLOSE or tt.text == ",":
                            break
                    e += 1
                add(toks[b].start, "{\n" + d.body + "\n", d)
                add(toks[_prev_code(toks, e)].end, " }", d, order=-1)
        elif d.kind == "in":
            m = re.match(r"\s*(?:(\d+)\s+)?`(.*)`\s*$", d.arg, re.S)
            if not m:
                raise Unsupported(f"bad #in syntax: {d.arg}")
            nth = int(m.group(1)) if m.group(1) else None
            k0, k1 = sh.find_anchor(m.group(2), nth)
            b = k1 + 1
            while b < len(toks) and not (toks[b].kind == "punct" and toks[b].text == "{"):
                if toks[b].kind == "punct" and toks[b].text in "([":
                    b = match_close(toks, b)
                b += 1
            if b >= len(toks):
                raise AnchorLost(f"lost anchor: no block after `{m.group(2)}`")
            add(toks[b].end, "\n" + d.body + "\n", d)
        elif d.kind == "body-start":
            add(toks[sh.body_open].end, "\n" + d.body + "\n", d, order=2)
        elif d.kind == "body-end":
            add(toks[sh.body_close].start, "\n" + d.body + "\n", d)
        elif d.kind == "closure":
            m = re.match(r"\s*(\d+)\s+(\|.*)$", d.arg, re.S)
            if not m:
                raise Unsupported(f"bad #closure syntax: {d.arg}")
            n, header = int(m.group(1)), m.group(2).strip()
            if n > len(closures):
                raise AnchorLost(f"lost anchor: closure {n} (fn has {len(closures)})")
            ob, cb, bs, be, is_block = closures[n - 1]
            # parameter names of the original must match those of the new header
            orig_params = text[toks[ob].start:toks[cb].end]
            hm = re.match(r"(\|[^|]*\|)(.*)$", header, re.S)
            if not hm:
                raise Unsupported(f"bad closure header {header}")
            on, dn = _param_names(orig_params), _param_names(hm.group(1))
            if len(on) == len(dn) and all(a == b or a.startswith("_") for a, b in zip(on, dn)):
                pass   # an unused (underscore) parameter may take the directive's name
            elif on != dn:
                raise AnchorLost(f"lost anchor: closure {n} parameters {orig_params} vs {hm.group(1)}")
            edits.append((toks[ob].start, toks[cb].end, header))
            spec = ("\n" + d.body + "\n") if d.payload else " "
            if is_block:
                add(toks[bs].start, spec, d)
            else:
                add(toks[bs].start, spec + "{ ", d)
                add(toks[_prev_code(toks, be)].end, " }", d, order=-1)
        elif d.kind == "vis":
            # visibility only (the item is wrapped in a module of its own by the template)
            add(toks[sh.fn_k].start, d.arg.strip() + " ", d, order=5)
        elif d.kind == "attr" and canary and "verifier::rlimit" in d.arg:
            pass   # canary runs use the small global rlimit: an unprovable `assert(false)` must fail fast
        elif d.kind == "attr":
            add(toks[sh.fn_k].start if not _has_vis(toks, sh.fn_k) else toks[_vis_start(toks, sh.fn_k)].start, d.arg.strip() + "\n", d, order=-5)
        else:
            raise Unsupported(f"unknown directive #{d.kind}")
    # loops the contract file does not know (added later) must not be rejected by the front end for lacking a
    # `decreases`; every loop that has a contract keeps its decreases clause and is still checked for termination
    if sh.body_open is not None and not any(d.kind == "attr" and "exec_allows_no_decreases_clause" in d.arg for d in directives):
        at = toks[sh.fn_k].start if not _has_vis(toks, sh.fn_k) else toks[_vis_start(toks, sh.fn_k)].start
        add(at, "#[verifier::exec_allows_no_decreases_clause]\n", Directive("attr", "auto", 0), order=-6)
    if canary:
        # with loop_isolation(false) the loop body belongs to the same query as the function entry: an entry canary
        # would mask the loop canaries, and a reachable loop body implies a reachable entry
        non_isolated = any(d.kind == "attr" and "loop_isolation(false)" in d.arg for d in directives)
        if sh.body_open is not None and not (non_isolated and loops):
            add(toks[sh.body_open].end, "\nassert(false); // CANARY body\n", Directive("canary", "body", 0), order=3)
        def has_spec(li):
            return any(d.kind == "loop" and d.arg.split()[0] == str(li + 1) and len(d.arg.split()) == 1 for d in directives)
        for li, (kw, bo, bc) in enumerate(loops):
            # non-isolated function: an outer-loop canary would mask the canaries of the loops nested in it
            if non_isolated and any(lj != li and has_spec(lj) and bo < loops[lj][0] < bc for lj in range(len(loops))):
                continue
            if has_spec(li):
                add(toks[bo].end, f"\nassert(false); // CANARY loop {li+1}\n", Directive("canary", f"loop {li+1}", 0), order=3)
    # apply: edits are replacements of original text, ins are pure insertions carrying a directive
    pieces = []  # (start, end, replacement, directive_or_None)
    for s_, e_, r_ in edits:
        pieces.append((s_, e_, r_, None, 0))
    for off, order, s_, d in ins:
        pieces.append((off, off, s_, d, order))
    pieces.sort(key=lambda x: (x[0], x[1], x[4]))
    out, segs, pos = [], [], 0  # segs: (new_start, new_end, kind, orig_offset|directive)
    cur = 0
    for s_, e_, r_, d, _o in pieces:
        if s_ < pos:
            raise Unsupported(f"overlapping edits at {s_}")
        if s_ > pos:
            out.append(text[pos:s_]); segs.append((cur, cur + s_ - pos, "orig", pos)); cur += s_ - pos
        if r_:
            out.append(r_)
            segs.append((cur, cur + len(r_), "ins" if d is not None else "repl", d if d is not None else s_))
            cur += len(r_)
        pos = e_
    if pos < len(text):
        out.append(text[pos:]); segs.append((cur, cur + len(text) - pos, "orig", pos)); cur += len(text) - pos
    return "".join(out), segs


def line_origins(new_text, segs, orig_text):
    """per line of new_text: ("code", orig_line_index) or ("woven", directive)"""
    res = []
    line_starts = [0]
    for m in re.finditer("\n", new_text):
        line_starts.append(m.end())
    si = 0
    for li, ls in enumerate(line_starts):
        le = line_starts[li + 1] if li + 1 < len(line_starts) else len(new_text)
        kind = None
        first_dir = None
        for (a, b, k, ref) in segs:
            if b <= ls or a >= le:
                continue
            lo, hi = max(a, ls), min(b, le)
            chunk = new_text[lo:hi]
            if not chunk.strip():
                continue
            if k == "orig":
                off = ref + (lo - a)
                # first non-ws char
                off += len(chunk) - len(chunk.lstrip())
                kind = ("code", orig_text.count("\n", 0, off))
                break
            elif k == "repl":
                if kind is None:
                    kind = ("code", orig_text.count("\n", 0, ref))
                    break
            elif first_dir is None:
                first_dir = ref
        if kind is None:
            kind = ("woven", first_dir) if first_dir is not None else ("blank", None)
        res.append(kind)
    return res


def _param_names(p):
    inner = p.strip()[1:-1]
    names = []
    depth = 0
    cur = ""
    for ch in inner:
        if ch in "<([":
            depth += 1
        elif ch in ">)]":
            depth -= 1
        if ch == "," and depth == 0:
            names.append(cur)
            cur = ""
        else:
            cur += ch
    if cur.strip():
        names.append(cur)
    out = []
    for n in names:
        n = n.split(":")[0].strip()
        n = n.lstrip("&").strip()
        out.append(n)
    return out


def _has_vis(toks, fk):
    p = _prev_code(toks, fk)
    return p >= 0 and toks[p].kind == "ident" and toks[p].text in ("pub", "const", "unsafe")


def _vis_start(toks, fk):
    p = fk
    while True:
        q = _prev_code(toks, p)
        if q >= 0 and ((toks[q].kind == "ident" and toks[q].text in ("pub", "const", "unsafe", "crate")) or toks[q].text in ("(", ")")):
            p = q
        else:
            return p
