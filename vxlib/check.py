"""`vx check <property>`: run the units a property depends on, attribute failed obligations, write evidence."""
import os, sys, json, time, re, subprocess, concurrent.futures, hashlib
from .unit import ToolError


def _scan_assumptions(gen):
    """mechanical scan of the generated file for everything that is assumed rather than proved"""
    pats = {
        "assume(": r"\bassume\s*\(", "admit(": r"\badmit\s*\(", "external_body": r"external_body",
        "assume_specification": r"\bassume_specification\b", "uninterp": r"\buninterp\b",
        "axiom": r"\baxiom\b|broadcast\s+proof", "external_type_specification": r"external_type_specification",
        "exec_allows_no_decreases_clause": r"exec_allows_no_decreases_clause",
    }
    out = {k: [] for k in pats}
    for i, line in enumerate(gen.lines):
        code = line.split("//")[0]
        for k, p in pats.items():
            if re.search(p, code):
                inf = gen.info[i]
                where = f"{inf.tmpl_file}:{inf.tmpl_line}" if inf.tmpl_file else f"{inf.repo_file}:{inf.repo_line}"
                out[k].append({"where": where, "text": code.strip()[:160], "in_repo_code": inf.kind == "code"})
    return out


def load_known(verif):
    p = os.path.join(verif, "known_findings.json")
    if not os.path.exists(p):
        return {"findings": [], "fixed": []}
    return json.load(open(p))


def known_match(known, prop, info):
    for f in known.get("findings", []):
        if f.get("property") != prop:
            continue
        if f.get("obligation_contains") and f["obligation_contains"] not in info["obligation"]:
            continue
        if f.get("site_contains") and f["site_contains"] not in info.get("site", ""):
            continue
        return f
    return None


def cmd_check(args, vx):
    t0 = time.time()
    prop = args.prop
    tier = args.tier if args.tier in ("quick", "thorough") else "quick"
    try:
        seed = int(os.environ.get("VERIF_SEED", "0") or 0)
    except ValueError:
        # any string is a valid seed: a non-numeric one is hashed
        import zlib
        seed = zlib.crc32(os.environ["VERIF_SEED"].encode())
    seed &= 0xFFFFFFFFFFFFFFFF
    cfg = vx.load_cfg()
    if prop not in cfg["properties"]:
        print(f"TOOL: property {prop} is not claimed (see MANIFEST not_applicable)")
        return 2
    pc = cfg["properties"][prop]
    units = pc["units"]
    vx.GEN = os.path.join(vx.BUILD, f"gen-{prop}-{tier}")
    ev_path = os.path.join(os.environ.get("VX_EVIDENCE_DIR", os.path.join(vx.VERIF, "evidence")), f"{prop}.json")
    try:
        os.remove(ev_path)
    except FileNotFoundError:
        pass
    def has_findings(u):
        try:
            return "#finding-" in open(os.path.join(vx.VERIF, "units", u + ".vrs")).read()
        except OSError:
            return False
    jobs = [(u, False) for u in units] + [(u, True) for u in units] + [(u, "findings") for u in units if has_findings(u)]
    # dispatcher units s2.. are generated from the samples' declarations: the committed text must be what the generator gives
    gen_samples = [u[len("generated_"):] for u in units if u.startswith("generated_") and u != "generated_s1"]
    gen_stale = None
    if gen_samples:
        gp = subprocess.run([sys.executable, os.path.join(vx.VERIF, "tools", "gen_dispatch_unit.py"), "--check"] + gen_samples, capture_output=True, text=True)
        if gp.returncode != 0:
            gen_stale = "generated dispatcher unit out of date (run tools/gen_dispatch_unit.py): " + gp.stdout.strip()[:300]
    results = {}
    early_tool_problems = []
    with concurrent.futures.ThreadPoolExecutor(max_workers=8) as ex:
        futs = {ex.submit(vx.run_verus, u, c is True, None, False, c == "findings"): (u, c) for (u, c) in jobs}
        for f in concurrent.futures.as_completed(futs):
            try:
                results[futs[f]] = f.result()
            except ToolError as e:
                if str(e) not in early_tool_problems:
                    early_tool_problems.append(str(e))
    # a unit that could not be generated (lost anchor, unsupported construct) is a tool failure; the other units are still used
    units_ok = [u for u in units if (u, False) in results and (u, True) in results]

    tool_problems, violations, known_hits, other_failures = list(early_tool_problems), [], [], []
    if gen_stale:
        tool_problems.append(gen_stale)
    known = load_known(vx.VERIF)
    try:
        shape_baseline = json.load(open(os.path.join(vx.VERIF, "contracts", "shape_baseline.json")))
    except Exception:
        shape_baseline = {}
    obligations = discharged = 0
    fn_records, samples, rewrites, items_all = [], [], [], []
    samples_tagged = []
    smt_ms = 0
    canaries_total = canaries_failed = 0
    assumptions_scan = {}
    for u in units_ok:
        res = results[(u, False)]
        can = results[(u, True)]
        if res.frontend_error and not any(vx.classify(d) == "obligation" for d in res.diags):
            tool_problems.append(f"verus front-end error in unit {u}: {res.frontend_error[-1500:]}")
            continue
        smt_ms += res.smt_ms
        for fb in res.funcs:
            if fb.get("mode:") in ("exec", "proof"):
                obligations += 1
                if fb.get("success"):
                    discharged += 1
                fn_records.append({"unit": u, "function": fb["function"], "mode": fb.get("mode:"), "ok": fb.get("success"), "smt_us": fb.get("time-micros"), "rlimit": fb.get("rlimit")})
        # functions the templates do not know (added to a file after the contracts were written; picked up by `#rest`
        # without contract): verification is modular, so an obligation of a function that calls one of them directly
        # cannot be decided — tool failure, not an alarm (the bounded replay still runs on the real code)
        new_fns = [it["name"].split("fn ")[-1].strip() for it in res.gen.items if it.get("via_rest") and it.get("kind") == "fn"]
        def calls_new(info):
            idx = info.get("item_index")
            if not new_fns or idx is None:
                return None
            text = "\n".join(l for l, inf in zip(res.gen.lines, res.gen.info) if inf.item == idx and inf.kind == "code")
            for n in new_fns:
                if re.search(r"\b" + re.escape(n) + r"\b", text) and res.gen.items[idx]["name"].split("fn ")[-1].strip() != n:
                    return n
            return None
        for d in res.diags:
            k = vx.classify(d)
            info = vx.diag_info(res, d)
            nf = calls_new(info) if k not in ("frontend", "rlimit") else None
            idx0 = info.get("item_index")
            # a closure or loop the template has no contract for (more of them than on the tree the contracts were written
            # for): Verus knows nothing about an exec closure without `ensures` or a loop without invariant
            if k not in ("frontend", "rlimit") and idx0 is not None:
                it0 = res.gen.items[idx0]
                b0 = shape_baseline.get(f"{u}:{it0['name']}")
                if b0 and (it0.get("n_closures", 0) > b0["closures"] or it0.get("n_loops", 0) > b0["loops"]):
                    what = "closure" if it0.get("n_closures", 0) > b0["closures"] else "loop"
                    msg = f"unit {u}: `{info['item']}` contains a {what} for which the template has no contract (added after the contracts were written): its obligation `{info['obligation'][:120]}` is undecided"
                    if msg not in tool_problems:
                        tool_problems.append(msg)
                    continue
            if k not in ("frontend", "rlimit") and idx0 is not None and res.gen.items[idx0].get("via_rest"):
                msg = f"unit {u}: `{info['item']}` was added without a contract (no precondition): its own obligation `{info['obligation'][:120]}` is undecided"
                if msg not in tool_problems:
                    tool_problems.append(msg)
                continue
            if nf:
                msg = f"unit {u}: `{info['item']}` calls `{nf}`, a function added without a contract: its obligation `{info['obligation'][:120]}` is undecided"
                if msg not in tool_problems:
                    tool_problems.append(msg)
                continue
            if k == "frontend":
                tool_problems.append(f"verus front-end error in unit {u}: {d['message']}")
            elif k == "rlimit":
                tool_problems.append(f"resource limit in unit {u}: {info['item']}")
            else:
                tags = info["tags"]
                if "INTERNAL" in tags and prop not in tags:
                    tool_problems.append(f"internal contract needs update in unit {u}: {info['obligation']}")
                elif prop in tags or "*" in tags:
                    km = known_match(known, prop, info)
                    if km:
                        known_hits.append((km, info))
                    else:
                        violations.append(info)
                else:
                    other_failures.append(info)
        # findings pass: obligations of recorded known findings (woven only there)
        if (u, "findings") in results:
            fres = results[(u, "findings")]
            main_obl = set(vx.diag_info(res, d)["obligation"] for d in res.diags if vx.classify(d) == "obligation")
            for d in fres.diags:
                if vx.classify(d) != "obligation":
                    continue
                info = vx.diag_info(fres, d)
                if info["obligation"] in main_obl:
                    continue      # already reported by the main pass
                if prop in info["tags"] or "*" in info["tags"]:
                    km = known_match(known, prop, info)
                    if km:
                        known_hits.append((km, info))
                    else:
                        violations.append(info)
        # canary pass: every canary must fail
        n_can = sum(1 for l in can.gen.lines if "// CANARY" in l and "assert(false)" in l)
        failed_lines = set()
        for d in can.diags:
            if "assertion failed" in d["message"]:
                for s in d.get("spans", []):
                    li = s["line_start"] - 1
                    if li < len(can.gen.lines) and "// CANARY" in can.gen.lines[li]:
                        failed_lines.add(li)
            elif vx.classify(d) == "rlimit":
                # the solver gave up on a query that contains canaries: they were not proved either
                for s in d.get("spans", []):
                    li = s["line_start"] - 1
                    if li < len(can.gen.info) and can.gen.info[li].item is not None:
                        it = can.gen.info[li].item
                        for k, l in enumerate(can.gen.lines):
                            if "// CANARY" in l and "assert(false)" in l and can.gen.info[k].item == it:
                                failed_lines.add(k)
        canaries_total += n_can
        canaries_failed += len(failed_lines)
        if any(vx.classify(d) == "frontend" for d in can.diags) or (can.frontend_error and not can.diags):
            tool_problems.append(f"canary run front-end error in unit {u}")
        elif len(failed_lines) != n_can:
            missing = [i + 1 for i, l in enumerate(can.gen.lines) if "// CANARY" in l and "assert(false)" in l and i not in failed_lines]
            # a canary may legitimately be masked when verus stops at its per-function error budget; re-check is manual
            tool_problems.append(f"vacuity: {n_can - len(failed_lines)} canary assertion(s) verified in unit {u} (generated lines {missing[:10]})")
        if n_can == 0:
            tool_problems.append(f"vacuity: unit {u} has no canaries")
        rewrites.extend(res.gen.rewrites)
        for it in res.gen.items:
            items_all.append({"unit": u, **it})
        sc = _scan_assumptions(res.gen)
        for k, v in sc.items():
            assumptions_scan.setdefault(k, []).extend([{**x, "unit": u} for x in v])
        for k in ("assume(", "admit("):
            for hit in sc[k]:
                if not hit["where"].startswith("prelude/"):
                    tool_problems.append(f"assume/admit outside prelude: {hit['where']}")
        # sample obligations: woven clauses
        for i, l in enumerate(res.gen.lines):
            inf = res.gen.info[i]
            if inf.kind == "woven" and prop in inf.tags and (inf.directive or "").split()[0:1] and (inf.directive or "").split()[0] in ("spec", "loop", "closure") \
                    and re.search(r"[A-Za-z]", l) and not l.strip().startswith("#[") \
                    and not re.match(r"\s*(requires|ensures|invariant|decreases)\s*$", l):
                rec = {"unit": u, "item": res.gen.items[inf.item]["name"], "clause": l.strip()[:200], "contract": f"{inf.tmpl_file}:{inf.tmpl_line}"}
                # clauses tagged with this property first (they state it), then clauses of functions it depends on
                if re.search(r"//:.*\b" + prop + r"\b", l):
                    if len(samples_tagged) < 12:
                        samples_tagged.append(rec)
                elif len(samples) < 4:
                    samples.append(rec)
    if obligations == 0:
        tool_problems.append("vacuity: zero obligations")

    # macro output validation on sampled interfaces (C01 macro half; see vxlib/trie.py)
    trie_summaries = []
    for sample in pc.get("trie_samples", []):
        try:
            from . import trie
            summ, tv = trie.validate(sample, vx.REPO, vx.VERIF)
            trie_summaries.append(summ)
            # a property that is about particular declarations only (C09: the queue queries) counts only their spellings
            only = pc.get("trie_only")
            other_trie = [v for v in tv if only and not re.search(only, (v.get("input") or "") + " " + v["what"], re.I)]
            for v in other_trie:
                other_failures.append({"obligation": f"trie:{sample}:{v['what']}", "tags": ["C01", "C11"]})
            for v in tv:
                if v in other_trie:
                    continue
                violations.append({"obligation": f"trie:{sample}:{v['what']}", "item": f"macro output for samples/{sample}", "message": v["what"],
                                   "spans": [], "rendered": v["what"], "tags": [prop], "site": "", "trie_input": v["input"], "sample": sample})
        except ToolError as e:
            tool_problems.append(str(e))

    # thorough tier: replay the recorded failing inputs of earlier findings on the real code
    replayed = []
    if tier == "thorough":
        try:
            from . import replay as rpl
            for r in rpl.replay_findings(vx):
                if r["property"] != prop:
                    continue
                replayed.append({k: r[k] for k in ("id", "status", "ok", "input", "mode", "n", "what")} | {"observed_calls": r["observed"].get("calls"), "observed_errors": r["observed"].get("errors"), "panic": r["observed"].get("panic")})
                if r["status"] == "fixed" and not r["ok"]:
                    violations.append({"obligation": f"replay:{r['id']}:{r['what']}", "item": f"recorded input of {r['id']}", "message": f"the input of the repaired defect {r['id']} misbehaves again: {r['what']}",
                                       "spans": [], "rendered": json.dumps(r["observed"]), "tags": [prop], "site": "", "trie_input": json.dumps(r["input"]), "sample": "replay/T1"})
                elif r["status"] == "known" and r["ok"]:
                    tool_problems.append(f"known finding {r['id']} no longer reproduces on the real code: remove it from known_findings.json / scenarios.json")
        except Exception as e:
            tool_problems.append(f"replay of recorded findings failed: {e!r}"[:400])

    # Kani bounded cross-checks (/verif/kani): always in the thorough tier; in the quick tier only as a stand-in when the
    # deductive pass could not be applied to the working tree (tool failure) — labelled bounded, never counted as proved
    kani_results = []
    want_kani = (tier == "thorough") or (bool(tool_problems) and not violations)
    if want_kani and os.environ.get("VX_NO_KANI") != "1":
        try:
            hs = [h["name"] for h in json.load(open(os.path.join(vx.VERIF, "kani", "harnesses.json"))) if prop in (h.get("property") or h.get("properties") or []) and h.get("default", True)]
        except Exception:
            hs = []
        if hs:
            cmd = ["python3", os.path.join(vx.VERIF, "kani", "run.py"), "--repo", vx.REPO, "--jobs", "8", "--timeout", os.environ.get("VX_KANI_TIMEOUT", "420")]
            for h in hs:
                cmd += ["--harness", h]
            try:
                kp = subprocess.run(cmd, capture_output=True, text=True, timeout=3600)
                for line in kp.stdout.splitlines():
                    line = line.strip()
                    if line.startswith("{"):
                        try:
                            kani_results.append(json.loads(line))
                        except Exception:
                            pass
            except subprocess.TimeoutExpired:
                kani_results.append({"harness": "*", "status": "timeout"})
            for kr in kani_results:
                if kr.get("status") == "fail":
                    violations.append({"obligation": f"kani:{kr['harness']}:bounded harness failed ({kr.get('bound', '')[:120]})", "item": f"Kani harness {kr['harness']}",
                                       "message": f"bounded Kani harness {kr['harness']} fails on the working tree (bounded stand-in, not a proof obligation)",
                                       "spans": [], "rendered": (kr.get("detail") or "")[-3000:], "tags": [prop], "site": "",
                                       "trie_input": kr.get("counterexample") or "(see verifier_output: the failed check names the violated oracle clause)", "sample": "kani"})

    # bounded differential replay (/verif/xcheck): the real crate, compiled with interface T2 through the real macro,
    # against the executable transcription of the spec. Labelled bounded; never counted as proved. It supplies the
    # failing input for a violation and stands in where no contract reaches (macro code generation beyond the sampled
    # interfaces; a function restructured so that its contract can no longer be woven).
    xcheck_results = []
    if pc.get("xcheck_families") and os.environ.get("VX_NO_XCHECK") != "1":
        from . import xcheck as xc
        try:
            xbin = xc.build(vx)
            for fam in pc["xcheck_families"]:
                xr = xc.run_family(xbin, fam, tier, seed)
                xcheck_results.append(xr)
                if xr["status"] != "ok":
                    tool_problems.append(f"bounded replay family {fam}: {xr['status']} {xr.get('detail', '')[:300]}")
                seen_kinds = set()
                for m in xr["reported"]:
                    if m["kind"] in seen_kinds:
                        continue
                    seen_kinds.add(m["kind"])
                    shown = "".join(ch if 32 <= ord(ch) < 127 else "\\x%02x" % (ord(ch) & 0xff) for ch in m["scenario"].get("input", "")[:80])
                    violations.append({"obligation": f"xcheck:{fam}:{m['kind']}:{shown}", "item": f"bounded replay family {fam} (interface T2, real macro, real crate)",
                                       "message": f"the real code deviates from the specification on a concrete input ({m['kind']}): {m['detail']}",
                                       "spans": [], "rendered": json.dumps(m, indent=1), "tags": [prop], "site": "", "xcheck": m})
        except ToolError as e:
            tool_problems.append(str(e))
        # a violation reported by the verifier carries no input: attach the one the bounded replay found
        first_x = next((v["xcheck"] for v in violations if v.get("xcheck")), None)
        if first_x:
            for v in violations:
                if not v.get("xcheck") and not v.get("trie_input"):
                    v["xcheck_found"] = first_x

    rc = 0
    os.makedirs(os.path.join(vx.BUILD, "replay"), exist_ok=True)
    out_lines = []
    for km, info in known_hits:
        out_lines.append(f"KNOWN-FINDING: property={prop} {km.get('what', info['obligation'])}")
    for n, info in enumerate(violations):
        oid = hashlib.sha1(info["obligation"].encode()).hexdigest()[:10]
        rp = os.path.join(vx.BUILD, "replay", f"{prop}-{oid}.json")
        replay = {"property": prop, "obligation": info["obligation"], "item": info["item"], "message": info["message"],
                  "spans": info["spans"], "verifier_output": info["rendered"], "failing_input": None,
                  "note": "obligation discharged on the pinned tree; now reported unproved by Verus"}
        tail = " no-failing-input-found"
        if info.get("trie_input"):
            replay["failing_input"] = {"kind": "header", "sample": info["sample"], "run_input": info["trie_input"], "expected": info["message"]}
            tail = ""
        xm = info.get("xcheck") or info.get("xcheck_found")
        if xm:
            replay["failing_input"] = {"kind": "xcheck", "family": xm["family"], "aspect": xm["kind"], "scenario": xm["scenario"], "observed_vs_expected": xm["detail"], "expected": xm["expected"],
                                       "how": "./vx replay <this file> rebuilds /verif/xcheck against the working tree and runs the scenario on the real crate"}
            if info.get("xcheck_found"):
                replay["note"] += "; the failing input was found by the bounded differential replay for this property (it shows that the property is violated, not necessarily through this obligation)"
            else:
                replay["note"] = "concrete input on which the real code deviates from the specification (bounded differential replay)"
            tail = ""
        try:
            from . import replay as rpl
            found = None if (info.get("trie_input") or xm) else rpl.search(vx, prop, info, seed)
            if found:
                replay["failing_input"] = found
                tail = ""
        except Exception as e:  # the search never decides anything
            replay["search_error"] = repr(e)
        json.dump(replay, open(rp, "w"), indent=1)
        out_lines.append(f"VIOLATION property={prop} replay={rp}{tail}")
        rc = 1
    if tool_problems and rc == 0:
        rc = 2
    wall = time.time() - t0
    under_contract = [f"{it['repo_file']}:{it['repo_line']} {it['name']}" for it in items_all if it.get("under_contract")]
    evidence = {
        "property_id": prop, "tier": tier, "seed": seed, "level": "proof",
        "coverage": {
            "obligations": obligations, "discharged": discharged,
            "checker_cmd": f"verus build/<unit>.rs --multiple-errors 20 (units: {', '.join(units)}), generated by ./vx from /repo working tree",
            "trusted_base": cfg.get("trusted_base_common", []) + pc.get("trusted_base", []),
            "samples": (samples_tagged + samples)[:14] or [{"note": "no clause tagged with this property in generated units"}],
            "explanation": pc.get("explanation", ""),
            "backend": f"Verus {results[(units_ok[0], False)].verus_version if units_ok else '?'} (bundled Z3)",
            "solver_time_ms": smt_ms,
            "functions_under_contract": under_contract,
            "verification_items": fn_records,
            "woven_clauses": sum(results[(u, False)].gen.clauses for u in units_ok),
            "canaries": {"woven": canaries_total, "failed_as_required": canaries_failed},
            "macro_output_validation": trie_summaries,
            "recorded_inputs_replayed_on_real_code": replayed,
            "bounded_differential_replay": [{k: x.get(k) for k in ("family", "status", "scenarios", "mismatches", "kinds", "bound", "seconds")} for x in xcheck_results],
            "kani_bounded_harnesses": [{k: kr.get(k) for k in ("harness", "status", "seconds", "bound", "complete")} for kr in kani_results],
            "rewrite_log": rewrites,
            "assumption_scan": {k: v for k, v in assumptions_scan.items() if v},
            "not_covered": pc.get("not_covered", []),
            "bounded_standins": pc.get("bounded", []),
            "failures_attributed_to_other_properties": [i["obligation"] for i in other_failures],
            "tool_problems": tool_problems,
            "known_findings_reported": [k.get("what") for k, _ in known_hits],
        },
        "assumptions": cfg.get("assumptions_common", []) + pc.get("assumptions", []),
        "wall_s": round(wall, 2),
        "violations": len(violations),
    }
    os.makedirs(os.path.dirname(ev_path), exist_ok=True)
    json.dump(evidence, open(ev_path, "w"), indent=1)
    for l in out_lines:
        print(l)
    for t in tool_problems:
        print("TOOL:", t)
    for i in other_failures:
        print(f"NOTE: failed obligation attributed to {i['tags']}: {i['obligation'][:160]}")
    print(f"{prop}: {discharged}/{obligations} verification items discharged, {canaries_failed}/{canaries_total} canaries rejected, "
          f"{len(violations)} violation(s), wall {wall:.1f}s -> exit {rc}")
    return rc


def cmd_replay(args, vx):
    d = json.load(open(args.file))
    print(json.dumps({k: d[k] for k in ("property", "obligation", "message")}, indent=1))
    print(d.get("verifier_output", ""))
    if d.get("failing_input", {}).get("kind") == "xcheck":
        from . import xcheck as xc
        vx.GEN = os.path.join(vx.BUILD, "gen-replay")
        return xc.rerun(vx, d["failing_input"])
    if d.get("failing_input"):
        from . import replay as rpl
        return rpl.rerun(vx, d)
    print("no failing input recorded (no-failing-input-found); the violation is the failed obligation above")
    return 1
