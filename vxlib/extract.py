"""Locate items in real Rust source by path and return their verbatim text.

Path syntax (segments separated by ' / '):
    fn digits
    trait Interface / fn process
    impl Response for bool / fn write_response
    impl<const N: usize> ErrorQueue for StaticErrorQueue<N>      (whole impl block)
    enum ParseError | struct CommandCall | type ParseResult | macro impl_try_into_int
"""
from .rustlex import lex, match_close, norm, Tok, LexError

ITEM_KW = {"fn", "struct", "enum", "trait", "impl", "mod", "use", "static", "const", "type", "union"}
QUALS = {"pub", "async", "unsafe", "extern", "default"}


class AnchorLost(Exception):
    pass


class Item:
    def __init__(self, kind, name, header, t_start, t_body, t_end, toks, src, t_attrs=None):
        self.kind, self.name, self.header = kind, name, header
        self.t_attrs = t_start if t_attrs is None else t_attrs
        self.t_start, self.t_body, self.t_end = t_start, t_body, t_end  # token indices; t_end inclusive
        self.toks, self.src = toks, src

    @property
    def start(self):
        return self.toks[self.t_attrs].start

    @property
    def end(self):
        return self.toks[self.t_end].end

    @property
    def text(self):
        return self.src[self.start:self.end]

    @property
    def line(self):
        return self.src.count("\n", 0, self.start) + 1

    def __repr__(self):
        return f"<{self.kind} {self.name} {self.header!r} L{self.line}>"


def _skip_trivia(toks, k, hi):
    while k < hi and toks[k].kind in ("ws", "comment"):
        k += 1
    return k


def items_in(toks, src, lo, hi):
    """Yield Items found at nesting depth 0 between token indices [lo, hi)."""
    k = lo
    while True:
        k = _skip_trivia(toks, k, hi)
        if k >= hi:
            return
        first = k
        # attributes
        while k < hi and toks[k].kind == "punct" and toks[k].text == "#":
            j = _skip_trivia(toks, k + 1, hi)
            if toks[j].text == "!":
                j = _skip_trivia(toks, j + 1, hi)
            if toks[j].text != "[":
                break
            k = _skip_trivia(toks, match_close(toks, j) + 1, hi)
        after_attrs = k
        # qualifiers
        while k < hi and toks[k].kind == "ident" and toks[k].text in QUALS:
            was = toks[k].text
            k = _skip_trivia(toks, k + 1, hi)
            if was == "pub" and k < hi and toks[k].text == "(":
                k = _skip_trivia(toks, match_close(toks, k) + 1, hi)
            if was == "extern" and k < hi and toks[k].kind == "str":  # extern "C"
                k = _skip_trivia(toks, k + 1, hi)
        if k >= hi:
            return
        t = toks[k]
        if t.kind == "ident" and t.text == "const":
            # const fn / const item
            j = _skip_trivia(toks, k + 1, hi)
            if toks[j].kind == "ident" and toks[j].text in ("fn", "unsafe", "async"):
                k = j
                while toks[k].text != "fn":
                    k = _skip_trivia(toks, k + 1, hi)
                t = toks[k]
        if t.kind == "ident" and t.text in ITEM_KW:
            kind = t.text
            j = _skip_trivia(toks, k + 1, hi)
            name = toks[j].text if toks[j].kind == "ident" else ""
            # find end: first '{' or ';' at depth 0
            body = None
            m = j
            semi_terminated = kind in ("static", "const", "use", "type")
            while m < hi:
                tt = toks[m]
                if tt.kind == "punct":
                    if tt.text == ";":
                        break
                    if tt.text == "{" and not semi_terminated:
                        body = m
                        m = match_close(toks, m)
                        break
                    if tt.text in "([{":
                        m = match_close(toks, m)
                m += 1
            if m >= hi:
                raise LexError(f"item without end near offset {t.start}")
            if kind == "trait":
                header = f"trait {name}"
            elif kind == "impl":
                header = norm(src[toks[k].start:toks[body].start]) if body is not None else norm(src[toks[k].start:toks[m].start])
            else:
                header = f"{kind} {name}"
            yield Item(kind, name, header, after_attrs, body, m, toks, src, t_attrs=first)
            k = m + 1
        elif t.kind == "ident" and _skip_trivia(toks, k + 1, hi) < hi and toks[_skip_trivia(toks, k + 1, hi)].text == "!":
            # macro invocation / macro_rules definition at item level
            j = _skip_trivia(toks, k + 1, hi)
            j = _skip_trivia(toks, j + 1, hi)
            name = t.text
            if t.text == "macro_rules":
                name = toks[j].text
                j = _skip_trivia(toks, j + 1, hi)
            m = match_close(toks, j)
            body = j
            n2 = _skip_trivia(toks, m + 1, hi)
            if n2 < hi and toks[n2].text == ";":
                m = n2
            kind = "macro_rules" if t.text == "macro_rules" else "macro_call"
            yield Item(kind, name, f"{kind} {name}", after_attrs, body, m, toks, src)
            k = m + 1
        else:
            # something we do not understand at item level: skip one token
            k += 1


def _prev_code(toks, k):
    k -= 1
    while k >= 0 and toks[k].kind in ("ws", "comment"):
        k -= 1
    return k


class Source:
    def __init__(self, path, text):
        self.path, self.text = path, text
        self.toks = lex(text)

    def top_items(self):
        return list(items_in(self.toks, self.text, 0, len(self.toks)))

    def children(self, item):
        if item.t_body is None:
            return []
        close = match_close(self.toks, item.t_body)
        return list(items_in(self.toks, self.text, item.t_body + 1, close))

    def find(self, path, nth=None):
        segs = [s.strip() for s in path.split(" / ")]
        cands = self.top_items()
        item = None
        for si, seg in enumerate(segs):
            want = norm(seg)
            hits = [it for it in cands if it.header == want or (it.kind == "macro_rules" and want == norm("macro " + it.name))]
            if not hits:
                raise AnchorLost(f"lost anchor: item `{path}` (segment `{seg}`) not found in {self.path}")
            if len(hits) > 1:
                if nth is None or si != len(segs) - 1:
                    raise AnchorLost(f"lost anchor: item `{path}` ambiguous in {self.path} ({len(hits)} matches)")
                item = hits[nth - 1]
            else:
                item = hits[0]
            if si + 1 < len(segs):
                cands = self.children(item)
        return item
