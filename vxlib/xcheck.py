"""Bounded differential replay (/verif/xcheck): the REAL crate against the executable transcription of the spec.

Never decides a proof obligation (DESIGN 3.6): it searches a failing input for a property whose obligation the verifier
reports, and it is the labelled *bounded* stand-in where no contract reaches (the proc-macro's code generation for an
interface other than the sampled ones; a function restructured so that its contract can no longer be woven)."""
import os, json, subprocess, shutil, hashlib, time, fcntl
from .unit import ToolError


def build(vx):
    """build /verif/xcheck against vx.REPO (shared target dir, under a file lock); returns this invocation's copy of the binary"""
    tag = hashlib.sha1(vx.REPO.encode()).hexdigest()[:8]
    work = os.path.join(vx.BUILD, f"xcheck_crate-{tag}")
    tgt = os.path.join(vx.BUILD, "xt3")
    os.makedirs(vx.GEN, exist_ok=True)
    os.makedirs(vx.BUILD, exist_ok=True)
    with open(os.path.join(vx.BUILD, "xcheck.lock"), "w") as lk:
        fcntl.flock(lk, fcntl.LOCK_EX)
        shutil.rmtree(work, ignore_errors=True)
        os.makedirs(work)
        open(os.path.join(work, "Cargo.toml"), "w").write(open(os.path.join(vx.VERIF, "xcheck", "Cargo.toml.in")).read().replace("@REPO@", vx.REPO))
        shutil.copytree(os.path.join(vx.VERIF, "xcheck", "src"), os.path.join(work, "src"))
        lock = os.path.join(vx.REPO, "Cargo.lock")
        if os.path.exists(lock):
            shutil.copy(lock, os.path.join(work, "Cargo.lock"))
        try:
            p = subprocess.run(["cargo", "build", "--offline", "--target-dir", tgt], cwd=work, capture_output=True, text=True,
                               env=dict(os.environ, CARGO_NET_OFFLINE="true"), timeout=1200)
        except subprocess.TimeoutExpired:
            raise ToolError("TOOL: building the replay harness xcheck timed out")
        if p.returncode != 0:
            errs = [l for l in p.stderr.splitlines() if l.startswith("error")][:4]
            raise ToolError("TOOL: the replay harness xcheck (interface T2) does not build against the working tree: " + " | ".join(errs) + " ... " + p.stderr[-600:])
        mine = os.path.join(vx.GEN, "vx-xcheck")
        shutil.copy2(os.path.join(tgt, "debug", "vx-xcheck"), mine)
    return mine


def run_family(binary, family, tier, seed, timeout=None):
    timeout = timeout or (3600 if tier == "thorough" else 900)
    cmd = [binary, "family", family, "--seed", str(seed or 1), "--max-report", "8"]
    if tier == "thorough":
        cmd += ["--scale", "10"]
    t0 = time.time()
    res = {"family": family, "status": "ok", "scenarios": 0, "mismatches": 0, "kinds": [], "bound": "", "reported": [], "seconds": 0.0}
    try:
        p = subprocess.run(cmd, capture_output=True, text=True, timeout=timeout)
    except subprocess.TimeoutExpired:
        res["status"] = "timeout"
        res["seconds"] = round(time.time() - t0, 1)
        return res
    res["seconds"] = round(time.time() - t0, 1)
    summary = None
    for line in p.stdout.splitlines():
        line = line.strip()
        if not line.startswith("{"):
            continue
        try:
            d = json.loads(line)
        except Exception:
            continue
        if "mismatch" in d:
            res["reported"].append(d["mismatch"])
        elif d.get("family") == family:
            summary = d
    if summary is not None and summary.get("mismatches", 0) > 0 and not res["reported"]:
        res["status"] = "error"
        res["detail"] = "mismatches were counted but none could be read back (output not JSON?)"
        return res
    if summary is None or p.returncode not in (0, 1):
        res["status"] = "error"
        res["detail"] = (p.stderr or p.stdout)[-600:]
        return res
    res.update({k: summary.get(k) for k in ("scenarios", "mismatches", "kinds", "bound")})
    if summary.get("aborted"):
        res["status"] = "aborted: " + summary["aborted"]
    return res


def rerun(vx, fi):
    binary = build(vx)
    p = subprocess.run([binary, "one", json.dumps(fi["scenario"], separators=(",", ":"))], capture_output=True, text=True, timeout=120)
    print(p.stdout)
    if p.returncode not in (0, 1):
        print("replay harness failed:", p.stderr[-400:])
        return 2
    print("-> the real code " + ("still deviates from the specification on this input" if p.returncode == 1 else "meets the specification on this input"))
    return p.returncode
