"""Minimal Rust tokenizer (strings, raw strings, chars vs lifetimes, comments, nesting).

Only what extraction needs: a flat token list with byte offsets, and bracket matching over it.
It never evaluates anything; text is copied verbatim by offsets.
"""
import re

IDENT_START = set("abcdefghijklmnopqrstuvwxyzABCDEFGHIJKLMNOPQRSTUVWXYZ_")
IDENT_CONT = IDENT_START | set("0123456789")
OPEN = {"(": ")", "[": "]", "{": "}"}
CLOSE = {v: k for k, v in OPEN.items()}


class Tok:
    __slots__ = ("kind", "text", "start", "end")

    def __init__(self, kind, text, start, end):
        self.kind, self.text, self.start, self.end = kind, text, start, end

    def __repr__(self):
        return f"{self.kind}:{self.text!r}@{self.start}"


class LexError(Exception):
    pass


def lex(src):
    """kinds: ws, comment, ident, lifetime, char, str, num, punct"""
    toks = []
    i, n = 0, len(src)
    while i < n:
        c = src[i]
        if c.isspace():
            j = i
            while j < n and src[j].isspace():
                j += 1
            toks.append(Tok("ws", src[i:j], i, j))
            i = j
        elif src.startswith("//", i):
            j = src.find("\n", i)
            j = n if j < 0 else j
            toks.append(Tok("comment", src[i:j], i, j))
            i = j
        elif src.startswith("/*", i):
            depth, j = 1, i + 2
            while j < n and depth:
                if src.startswith("/*", j):
                    depth += 1
                    j += 2
                elif src.startswith("*/", j):
                    depth -= 1
                    j += 2
                else:
                    j += 1
            toks.append(Tok("comment", src[i:j], i, j))
            i = j
        elif c in IDENT_START:
            # raw strings / byte strings prefixes
            m = re.match(r'(br|rb|r)(#*)"', src[i:])
            if m:
                hashes = m.group(2)
                j = src.find('"' + hashes, i + len(m.group(0)))
                if j < 0:
                    raise LexError("unterminated raw string")
                j += 1 + len(hashes)
                toks.append(Tok("str", src[i:j], i, j))
                i = j
                continue
            if src.startswith('b"', i):
                j = _scan_str(src, i + 1)
                toks.append(Tok("str", src[i:j], i, j))
                i = j
                continue
            if src.startswith("b'", i):
                j = _scan_char(src, i + 1)
                if j is None:
                    raise LexError("bad byte char")
                toks.append(Tok("char", src[i:j], i, j))
                i = j
                continue
            j = i
            while j < n and src[j] in IDENT_CONT:
                j += 1
            toks.append(Tok("ident", src[i:j], i, j))
            i = j
        elif c == '"':
            j = _scan_str(src, i)
            toks.append(Tok("str", src[i:j], i, j))
            i = j
        elif c == "'":
            j = _scan_char(src, i)
            if j is not None:
                toks.append(Tok("char", src[i:j], i, j))
                i = j
            else:
                j = i + 1
                while j < n and src[j] in IDENT_CONT:
                    j += 1
                toks.append(Tok("lifetime", src[i:j], i, j))
                i = j
        elif c.isdigit():
            j = i
            while j < n and (src[j] in IDENT_CONT or (src[j] == "." and j + 1 < n and src[j + 1].isdigit())):
                j += 1
            toks.append(Tok("num", src[i:j], i, j))
            i = j
        else:
            toks.append(Tok("punct", c, i, i + 1))
            i += 1
    return toks


def _scan_str(src, i):
    j = i + 1
    while j < len(src):
        if src[j] == "\\":
            j += 2
        elif src[j] == '"':
            return j + 1
        else:
            j += 1
    raise LexError("unterminated string")


def _scan_char(src, i):
    """src[i] == "'"; return end offset if this is a char literal, else None (lifetime)."""
    n = len(src)
    if i + 1 >= n:
        return None
    if src[i + 1] == "\\":
        j = i + 2
        # escape: \n \' \\ \x41 \u{..}
        if j < n and src[j] == "u":
            k = src.find("}", j)
            if k >= 0 and k + 1 < n and src[k + 1] == "'":
                return k + 2
            return None
        if j < n and src[j] == "x":
            if j + 3 < n and src[j + 3] == "'":
                return j + 4
            return None
        if j + 1 < n and src[j + 1] == "'":
            return j + 2
        return None
    # single (possibly multi-byte) char followed by '
    if i + 2 < n and src[i + 2] == "'" and src[i + 1] != "'":
        return i + 3
    return None


def code_toks(toks):
    """tokens that matter syntactically (no ws/comments), as list of (index_in_toks, tok)"""
    return [(k, t) for k, t in enumerate(toks) if t.kind not in ("ws", "comment")]


def match_close(toks, k):
    """toks[k] is an opening bracket punct; return index of the matching close."""
    opener = toks[k].text
    assert opener in OPEN, toks[k]
    depth = 0
    for j in range(k, len(toks)):
        t = toks[j]
        if t.kind != "punct":
            continue
        if t.text in OPEN:
            depth += 1
        elif t.text in CLOSE:
            depth -= 1
            if depth == 0:
                if CLOSE[t.text] != opener:
                    raise LexError(f"mismatched bracket at {t.start}")
                return j
    raise LexError("unbalanced brackets")


def norm(s):
    """whitespace-insensitive normal form for anchor comparison (comments dropped)."""
    out = []
    for t in lex(s):
        if t.kind in ("ws", "comment"):
            continue
        out.append(t.text)
    return " ".join(out)
