"""Failing-input search and replay against the real crate (never decides anything; see DESIGN 3.4)."""
import os, json, subprocess


def search(vx, prop, info, seed):
    """return a dict describing a failing input replayed on the real crate, or None"""
    return None


def rerun(vx, replay):
    print("replay harness not built yet")
    return 1
