"""Replay of recorded inputs against the REAL crate (never decides a proof obligation; see DESIGN 3.4 / 5)."""
import os, json, subprocess, shutil, hashlib


def build(vx):
    """build /verif/replay against vx.REPO; returns the binary path"""
    tag = hashlib.sha1(vx.REPO.encode()).hexdigest()[:8]
    work = os.path.join(vx.BUILD, f"replay_crate-{tag}")
    tgt = os.path.join(vx.BUILD, "xt2")
    # checks of several properties may run at the same time: build and copy the binary under a file lock, and run this
    # invocation's own copy
    import fcntl
    os.makedirs(vx.GEN, exist_ok=True)
    with open(os.path.join(vx.BUILD, "replay.lock"), "w") as lk:
        fcntl.flock(lk, fcntl.LOCK_EX)
        os.makedirs(os.path.join(work, "src"), exist_ok=True)
        open(os.path.join(work, "Cargo.toml"), "w").write(open(os.path.join(vx.VERIF, "replay", "Cargo.toml.in")).read().replace("@REPO@", vx.REPO))
        shutil.copy(os.path.join(vx.VERIF, "replay", "src", "main.rs"), os.path.join(work, "src", "main.rs"))
        lock = os.path.join(vx.REPO, "Cargo.lock")
        if os.path.exists(lock):
            shutil.copy(lock, os.path.join(work, "Cargo.lock"))
        p = subprocess.run(["cargo", "build", "--offline", "--target-dir", tgt], cwd=work, capture_output=True, text=True,
                           env=dict(os.environ, CARGO_NET_OFFLINE="true"), timeout=900)
        if p.returncode != 0:
            raise RuntimeError("replay crate does not build against the working tree: " + p.stderr[-1500:])
        mine = os.path.join(vx.GEN, "vx-replay")
        shutil.copy2(os.path.join(tgt, "debug", "vx-replay"), mine)
    return mine


def run_scenario(binary, sc):
    args = [binary, sc["mode"], str(sc.get("n", 0)), "0"] + [c.encode().hex() for c in sc["chunks"]]
    p = subprocess.run(args, capture_output=True, text=True, timeout=60)
    if p.returncode != 0:
        return {"panic": True, "stderr": p.stderr[-600:]}
    obs = json.loads(p.stdout.strip().splitlines()[-1])
    obs["panic"] = False
    obs["out_text"] = bytes.fromhex(obs["out"]).decode("latin-1")
    return obs


def meets(obs, expect):
    if obs.get("panic"):
        return False
    for k, v in expect.items():
        if k == "no_panic":
            continue
        if obs.get(k) != v:
            return False
    return True


def replay_findings(vx):
    """thorough tier: fixed findings must stay fixed on the real code, the known finding is reported as such"""
    sc_all = json.load(open(os.path.join(vx.VERIF, "findings", "scenarios.json")))["scenarios"]
    binary = build(vx)
    out = []
    for sc in sc_all:
        obs = run_scenario(binary, sc)
        out.append({"id": sc["id"], "property": sc["property"], "status": sc["status"], "ok": meets(obs, sc["expect"]), "observed": obs, "expect": sc["expect"], "what": sc["what"],
                    "input": sc["chunks"], "mode": sc["mode"], "n": sc.get("n", 0)})
    return out


def search(vx, prop, info, seed):
    """failing-input search for a failed obligation: not implemented beyond trie validation (which carries its input)"""
    return None


def rerun(vx, replay):
    fi = replay.get("failing_input") or {}
    if fi.get("kind") == "header":
        print(f"failing input for sample {fi['sample']}: header {fi['run_input']!r}: {fi['expected']}")
        print("(replay: compile samples/%s against /repo and send the header; the trie validation of `vx check` recomputes it)" % fi["sample"])
        return 1
    print("no executable replay for this record")
    return 1
