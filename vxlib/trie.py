"""C01, macro half, for sampled interfaces: the trie the real proc-macro emits (taken from rustc's expansion of the
sample against the working tree) must map exactly the header spellings the property allows to the declared
handlers — and nothing else. This is a validation of the macro's OUTPUT for the sampled programs performed by this
tool (not a Verus proof); how a trie is walked at run time (Node::child, the header functions, execute) is what
units `parser`/`interface` prove for every trie.
"""
import re, itertools
from .unit import expand_sample, ToolError


def declared(sample_src):
    """declarations of the sample in macro order: user fns, then the standard commands that were requested"""
    m = re.search(r"#\[\s*scpi::interface\s*(?:\(([^)]*)\))?\s*\]", sample_src)
    if not m:
        raise ToolError("TOOL: sample has no #[scpi::interface] attribute")
    opts = [x.strip() for x in (m.group(1) or "").split(",") if x.strip()]
    decls = []
    for mm in re.finditer(r"#\[\s*scpi\s*\(\s*cmd\s*=\s*\"([^\"]*)\"\s*\)\s*\]", sample_src):
        decls.append(mm.group(1))
    if "StandardCommands" in opts:
        decls.append("SYSTem:VERSion?")
    if "ErrorCommands" in opts:
        decls += ["SYSTem:ERRor:[NEXT]?", "SYSTem:ERRor:COUNt?"]
    return decls, opts


def spellings(cmd):
    """C01: every header spelling that must select the handler of declaration `cmd` — per node the short form
    (declared spelling without its lower-case letters) or the long form (the full spelling), optional nodes present
    or omitted; upper-cased because matching ignores ASCII case. Returns (set of tuples, is_query)."""
    q = cmd.endswith("?")
    body = cmd[:-1] if q else cmd
    parts = []
    for p in body.split(":"):
        p = p.strip()
        if not p:
            continue
        opt = p.startswith("[") and p.endswith("]")
        if opt:
            p = p[1:-1]
        short = "".join(c for c in p if not c.islower())
        parts.append((opt, short.upper(), p.upper()))
    choices = []
    for (opt, s, l) in parts:
        c = {(s,), (l,)}
        if opt:
            c.add(())
        choices.append(c)
    out = set()
    for combo in itertools.product(*choices):
        out.add(tuple(x for t in combo for x in t))
    return out, q


def emitted(expanded):
    """parse `static SCPI_NODE_k: ::microscpi::Node = ::microscpi::Node { children: &[(\"K\", &SCPI_NODE_j), ..], command: .., query: .. };`"""
    nodes = {}
    for m in re.finditer(r"static\s+SCPI_NODE_(\d+)\s*:\s*::microscpi::Node\s*=\s*::microscpi::Node\s*\{(.*?)\}\s*;", expanded, re.S):
        body = m.group(2)
        ch = re.search(r"children\s*:\s*&\[(.*?)\]\s*,\s*command", body, re.S)
        children = re.findall(r"\(\s*\"([^\"]*)\"\s*,\s*&SCPI_NODE_(\d+)\s*\)", ch.group(1)) if ch else []
        def slot(name):
            mm = re.search(name + r"\s*:\s*(None|Some\((\d+)(?:usize)?\))", body)
            if not mm:
                raise ToolError("TOOL: unsupported construct: Node initialiser without " + name)
            return None if mm.group(1) == "None" else int(mm.group(2))
        nodes[int(m.group(1))] = {"children": [(k, int(j)) for k, j in children], "command": slot("command"), "query": slot("query")}
    if 0 not in nodes:
        raise ToolError("TOOL: lost anchor: SCPI_NODE_0 not found in the expansion")
    return nodes


def reachable(nodes):
    """{(upper-cased key path, kind) -> id} for every slot reachable by first-match, case-insensitive lookup"""
    out, problems = {}, []
    def walk(n, path, depth):
        if depth > 12:
            raise ToolError("TOOL: trie deeper than 12 levels or cyclic")
        nd = nodes[n]
        if nd["command"] is not None:
            out.setdefault((path, False), nd["command"])
        if nd["query"] is not None:
            out.setdefault((path, True), nd["query"])
        seen = set()
        for k, j in nd["children"]:
            ku = k.upper()
            if ku in seen:
                problems.append(f"node {n}: two children keys equal ignoring case: {k}")
                continue   # first match wins at run time
            seen.add(ku)
            walk(j, path + (ku,), depth + 1)
    walk(0, (), 0)
    return out, problems


def header_of(path, q):
    return ":".join(path) + ("?" if q else "")


def validate(sample, repo_root, verif_root):
    """returns (summary dict, list of violations: each {what, input})"""
    import os
    src = open(os.path.join(verif_root, "samples", sample, "src", "lib.rs")).read()
    decls, opts = declared(src)
    exp = expand_sample(sample, repo_root, verif_root)
    nodes = emitted(exp)
    got, problems = reachable(nodes)
    want = {}
    for i, d in enumerate(decls):
        sp, q = spellings(d)
        for p in sp:
            if (p, q) in want and want[(p, q)] != i:
                raise ToolError(f"TOOL: sample {sample} is ambiguous by construction: {d} vs {decls[want[(p, q)]]}")
            want[(p, q)] = i
    viol = []
    for key, i in sorted(want.items()):
        if key not in got:
            viol.append({"what": f"declared spelling {header_of(*key)} of `{decls[i]}` is missing from the emitted trie (would report -113)", "input": header_of(*key) + "\n", "sample": sample})
        elif got[key] != i:
            viol.append({"what": f"spelling {header_of(*key)} selects handler id {got[key]} instead of id {i} (`{decls[i]}`)", "input": header_of(*key) + "\n", "sample": sample})
    for key, i in sorted(got.items()):
        if key not in want:
            viol.append({"what": f"the emitted trie accepts {header_of(*key)} (handler id {i}), which is no short/long/optional spelling of a declaration", "input": header_of(*key) + "\n", "sample": sample})
    for p in problems:
        viol.append({"what": p, "input": None, "sample": sample})
    std = {"SYSTem:VERSion?": "StandardCommands" in opts, "SYSTem:ERRor:[NEXT]?": "ErrorCommands" in opts, "SYSTem:ERRor:COUNt?": "ErrorCommands" in opts}
    summary = {"sample": sample, "declarations": len(decls), "nodes_emitted": len(nodes), "spellings_expected": len(want), "slots_reachable": len(got),
               "standard_commands_requested": [k for k, v in std.items() if v],
               "examples": [header_of(*k) for k in sorted(want)[:6]]}
    return summary, viol
