"""Item-specific rewrite rules (R2..R6, R10), selected per item with `#rules`. Each logs what it did."""
import re
from .rustlex import lex, match_close, norm
from .weave import apply_edits, Unsupported, _next_code, _prev_code


def r11_rpitit(text, log):
    """R11: return-position `impl Trait` in a trait method signature -> the associated type rustc desugars
    it to (`-> &mut impl ErrorQueue` => `-> &mut Self::Rpit0_`; the template declares `type Rpit0_: ErrorQueue;`)."""
    toks = lex(text)
    edits = []
    seen_arrow = False
    n = 0
    for k, t in enumerate(toks):
        if t.text == "-" and k + 1 < len(toks) and toks[k + 1].text == ">":
            seen_arrow = True
        if t.kind == "punct" and t.text in ("{", ";"):
            break
        if seen_arrow and t.kind == "ident" and t.text == "impl":
            # bound = following path tokens up to '{', ';' or 'where'
            m = _next_code(toks, k)
            e = m
            while e < len(toks) and not (toks[e].text in ("{", ";", ",") or toks[e].text == "where"):
                e += 1
            last = _prev_code(toks, e)
            bound = text[toks[m].start:toks[last].end]
            edits.append((t.start, toks[last].end, f"Self::Rpit{n}_"))
            log.append(("R11", f"return-position impl {bound} -> associated type Self::Rpit{n}_ (declared in template with bound {bound})"))
            n += 1
    return apply_edits(text, edits)
