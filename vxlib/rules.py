"""Item-specific rewrite rules (R2..R6, R10), selected per item with `#rules`. Each logs what it did."""
import re
from .rustlex import lex, match_close, norm
from .weave import apply_edits, Unsupported, _next_code, _prev_code


def r11_rpitit(text, log):
    """R11: return-position `impl Trait` in a trait method signature -> the associated type rustc desugars
    it to (`-> &mut impl ErrorQueue` => `-> &mut Self::Rpit0_`; the template declares `type Rpit0_: ErrorQueue;`)."""
    toks = lex(text)
    edits = []
    seen_arrow = False
    n = 0
    for k, t in enumerate(toks):
        if t.text == "-" and k + 1 < len(toks) and toks[k + 1].text == ">":
            seen_arrow = True
        if t.kind == "punct" and t.text in ("{", ";"):
            break
        if seen_arrow and t.kind == "ident" and t.text == "impl":
            # bound = following path tokens up to '{', ';' or 'where'
            m = _next_code(toks, k)
            e = m
            while e < len(toks) and not (toks[e].text in ("{", ";", ",") or toks[e].text == "where"):
                e += 1
            last = _prev_code(toks, e)
            bound = text[toks[m].start:toks[last].end]
            edits.append((t.start, toks[last].end, f"Self::Rpit{n}_"))
            log.append(("R11", f"return-position impl {bound} -> associated type Self::Rpit{n}_ (declared in template with bound {bound})"))
            n += 1
    return apply_edits(text, edits)


from .weave import FnShape, _code


def _closure_list(text):
    sh = FnShape(text)
    return sh, sh.closures()


def r2_closure_params(text, log):
    """R2: closure parameter patterns Verus rejects are moved into a `let` (nothing dropped):
       |_| E -> |_e| E ;  |(a, b)| E -> |p_| { let (a, b) = p_; E } ;  |&x| E -> |x_| { let x = *x_; E }"""
    if not any(t.kind == "ident" and t.text == "fn" for t in lex(text)):
        return text
    while True:
        sh, cls = _closure_list(text)
        toks = sh.toks
        done = True
        for (ob, cb, bs, be, is_block) in cls:
            params = text[toks[ob].end:toks[cb].start].strip()
            body = text[toks[bs].start:toks[_prev_code(toks, be)].end]
            if params == "_":
                text = apply_edits(text, [(toks[ob].end, toks[cb].start, "_e")])
                log.append(("R2", "|_| -> |_e|"))
                done = False
                break
            m = re.match(r"^\(([^()]*)\)$", params)
            if m:
                new = f"|p_| {{ let ({m.group(1)}) = p_; {body} }}"
                text = apply_edits(text, [(toks[ob].start, toks[_prev_code(toks, be)].end, new)])
                log.append(("R2", f"|({m.group(1)})| E -> |p_| {{ let ({m.group(1)}) = p_; E }}"))
                done = False
                break
            m = re.match(r"^&\s*([A-Za-z_][A-Za-z0-9_]*)$", params)
            if m:
                x = m.group(1)
                new = f"|{x}_| {{ let {x} = *{x}_; {body} }}"
                text = apply_edits(text, [(toks[ob].start, toks[_prev_code(toks, be)].end, new)])
                log.append(("R2", f"|&{x}| E -> |{x}_| {{ let {x} = *{x}_; E }}"))
                done = False
                break
        if done:
            return text


def r3_some_ref_guard(text, log):
    """R3: `Some(&x) if G(x) => E,` -> `Some(x_) if G((*x_)) => { let x = *x_; E }`"""
    m = re.search(r"Some\(&([a-z_][a-z0-9_]*)\)\s+if\s+(.*?)\s*=>\s*(.*?),\n", text)
    if not m:
        log.append(("R3", "not applicable: no `Some(&x) if guard => expr,` arm"))
        return text
    x, guard, expr = m.group(1), m.group(2), m.group(3)
    guard2 = re.sub(r"\b%s\b" % x, f"(*{x}_)", guard)
    new = f"Some({x}_) if {guard2} => {{ let {x} = *{x}_; {expr} }},\n"
    log.append(("R3", f"Some(&{x}) if {guard} => E  ->  Some({x}_) if {guard2} => {{ let {x} = *{x}_; E }}"))
    return text[:m.start()] + new + text[m.end():]


def r3_empty_slice_patterns(text, log):
    """R3: `Ok((&[], &[])) =>` -> `Ok((s0_, s1_)) if s0_.len() == 0 && s1_.len() == 0 =>`;
           `Ok((_, &[])) =>`   -> `Ok((_, s1_)) if s1_.len() == 0 =>`"""
    n = 0
    for pat, rep in ((r"Ok\(\(&\[\],\s*&\[\]\)\)\s*=>", "Ok((s0_, s1_)) if s0_.len() == 0 && s1_.len() == 0 =>"),
                     (r"Ok\(\(_,\s*&\[\]\)\)\s*=>", "Ok((_, s1_)) if s1_.len() == 0 =>")):
        text, k = re.subn(pat, rep, text)
        n += k
        if k:
            log.append(("R3", f"empty-slice pattern -> guard: {rep}"))
    return text


def r5_rename_shadowing_param(text, log):
    """R5: a parameter that shadows its function's name is renamed (`fn tag(tag: u8)` -> `tag_`)."""
    toks = lex(text)
    fk = next(k for k, t in enumerate(toks) if t.kind == "ident" and t.text == "fn")
    nk = _next_code(toks, fk)
    name = toks[nk].text
    edits = [(t.start, t.end, name + "_") for k, t in enumerate(toks) if t.kind == "ident" and t.text == name and k != nk]
    if not edits:
        log.append(("R5", "not applicable: no parameter shadows the function name"))
        return text
    log.append(("R5", f"parameter `{name}` renamed `{name}_` ({len(edits)} occurrences)"))
    return apply_edits(text, edits)


def r4_uncurry_arguments_def(text, log):
    """R4: `fn arguments(args) -> impl FnMut(&'a [u8]) -> R { move |mut input: &'a [u8]| { BODY } }`
           -> `fn arguments(args, mut input: &'a [u8]) -> R { BODY }` (the closure is applied immediately at its only call site)"""
    m = re.search(r"\)\s*->\s*impl\s+'b\s*\+\s*FnMut\(&'a \[u8\]\)\s*->\s*(ParseResult<'a, \(\)>)\s*\{\s*move\s*\|(mut input: &'a \[u8\])\|\s*\{", text)
    if not m:
        log.append(("R4", "not applicable: `arguments` does not return a closure"))
        return text
    head = text[:m.start()].rstrip()
    if head.endswith(","):
        head = head[:-1]
    new_head = head + f", {m.group(2)}) -> {m.group(1)} {{"
    rest = text[m.end():]
    # drop the closing brace of the closure (the last but one '}' of the text)
    last = rest.rstrip().rfind("}")
    inner = rest[:last].rstrip()
    last2 = inner.rfind("}")
    if last2 < 0:
        raise Unsupported("R4: closing braces")
    body = inner[:last2] + inner[last2 + 1:]
    log.append(("R4", "arguments(args) -> closure(input)  uncurried to arguments(args, input)"))
    return new_head + body + "\n}"


def r4_uncurry_arguments_call(text, log):
    new, k = re.subn(r"arguments\(&mut args\)\(input\)", "arguments(&mut args, input)", text)
    if k != 1:
        return text
    log.append(("R4", "call site arguments(&mut args)(input) -> arguments(&mut args, input)"))
    return new


def r12_matches_macro(text, log):
    """R12: `matches!(e, P)` -> `match e { P => true, _ => false }` (the macro's definition)"""
    def rep(m):
        log.append(("R12", f"matches!({m.group(1)}, {m.group(2)}) expanded"))
        return f"match {m.group(1)} {{ {m.group(2)} => true, _ => false }}"
    new, k = re.subn(r"matches!\(\s*([a-z_]+)\s*,\s*([^()]*?)\)", rep, text)
    return new


FMT_LITERALS = {
    '"{self}"': ("display", lambda args: ["self"]),
    '"#{}{}"': ("block_header", lambda args: args),
    '"\\"{self}\\""': ("quoted", lambda args: ["*self"]),
    '"\\"{}\\""': ("quoted", lambda args: args),
}


def r6_write_macro(text, log):
    """R6: `write!(f, LIT, a...)` -> `fmt_model::<name of LIT>(f, a...)`: core::fmt is replaced by the trusted model
    of prelude/fmt_model.vrs, keyed by the literal format string; an unknown literal maps to `fmt_model::unknown`,
    which promises nothing (so the postcondition fails rather than passes)."""
    while True:
        toks = lex(text)
        hit = None
        for k, t in enumerate(toks):
            if t.kind == "ident" and t.text == "write":
                n = _next_code(toks, k)
                if n < len(toks) and toks[n].text == "!":
                    o = _next_code(toks, n)
                    if toks[o].text == "(":
                        hit = (k, o, match_close(toks, o))
                        break
        if not hit:
            return text
        k, o, c = hit
        # split args at depth 0
        args, cur, depth = [], [], 0
        j = o + 1
        while j < c:
            tt = toks[j]
            if tt.kind == "punct" and tt.text in "([{":
                depth += 1
            elif tt.kind == "punct" and tt.text in ")]}":
                depth -= 1
            if tt.kind == "punct" and tt.text == "," and depth == 0:
                args.append("".join(x.text for x in cur).strip())
                cur = []
            else:
                cur.append(tt)
            j += 1
        if cur:
            args.append("".join(x.text for x in cur).strip())
        dest, lit, rest = args[0], args[1], args[2:]
        if lit in FMT_LITERALS:
            name, fargs = FMT_LITERALS[lit]
            call = f"fmt_model::{name}({dest}, {', '.join(fargs(rest))})"
        else:
            call = f"fmt_model::unknown({dest})"
        log.append(("R6", f"write!({dest}, {lit}, ..) -> {call}"))
        text = apply_edits(text, [(toks[k].start, toks[c].end, call)])


def r8_strip_crate_prefix(text, log):
    """R8: absolute paths of the crate in macro output (`::microscpi::X`) refer to the unit's own items `X`"""
    new, k = re.subn(r"::\s*microscpi\s*::\s*", "", text)
    if k:
        log.append(("R8", f"`::microscpi::` prefix removed ({k} occurrences)"))
    return new


def r12_enumerate(text, log):
    """R12: `for (i, x) in E.iter().enumerate() { BODY }` -> `let mut i: usize = 0; for x in E.iter() { BODY i = i + 1; }`
    (Iterator::enumerate yields (0, x0), (1, x1), ...; Verus has no spec for the adapter). The added counter
    increment cannot overflow for a slice iterator (at most usize::MAX elements); Verus still checks it."""
    m = re.search(r"for\s*\(\s*([a-z_][a-z0-9_]*)\s*,\s*([a-z_][a-z0-9_]*)\s*\)\s*in\s*(.*?)\.enumerate\(\)\s*\{", text)
    if not m:
        log.append(("R12", "not applicable: no `for (i, x) in E.enumerate()` loop"))
        return text
    i, x, it = m.group(1), m.group(2), m.group(3)
    toks = lex(text)
    # find the opening brace token of this loop and its match
    ob = next(k for k, t in enumerate(toks) if t.kind == "punct" and t.text == "{" and t.start == m.end() - 1)
    cb = match_close(toks, ob)
    new_head = f"let mut {i}: usize = 0;\n        for {x} in {it} {{"
    edits = [(m.start(), m.end(), new_head), (toks[cb].start, toks[cb].start, f"    {i} = {i} + 1;\n        ")]
    log.append(("R12", f"for ({i}, {x}) in {it}.enumerate() -> explicit counter {i}"))
    return apply_edits(text, edits)


# ------------------------------------------------------------------------------------------------
# R13: private single-expression helper functions that no contract template knows (added to a file after the
# contracts were written) are inlined at their call sites, so that the callers stay within reach of their contracts.
# ------------------------------------------------------------------------------------------------
_R13_FORBIDDEN = {"return", "loop", "while", "for", "async", "await", "fn", "break", "continue", "unsafe", "self", "Self"}


def r13_helper_shape(fn_text):
    """(name, [(param, type or None)], expression text) when `fn_text` is a free, non-generic
    `fn name(p1: T1, ..) -> R { EXPR }` whose body is ONE expression (no statement, no `?`, no control transfer);
    None otherwise."""
    try:
        sh = FnShape(fn_text)
    except Exception:
        return None
    toks = sh.toks
    if sh.body_open is None:
        return None
    k = _next_code(toks, sh.fn_k)
    if k is None or toks[k].kind != "ident":
        return None
    name = toks[k].text
    p = _next_code(toks, k)
    if p is not None and toks[p].text == "<":     # lifetime parameters only (`<'a, 'b>`); type generics are not handled
        q = p + 1
        while q < len(toks) and toks[q].text != ">":
            if toks[q].kind not in ("ws", "comment", "lifetime") and toks[q].text not in (",", "'"):
                return None
            q += 1
        p = _next_code(toks, q)
    if p is None or toks[p].text != "(":
        return None
    pc = match_close(toks, p)
    # parameters
    params, depth, start = [], 0, toks[p].end
    cur_start = start
    parts = []
    j = p + 1
    while j < pc:
        t = toks[j]
        if t.kind == "punct" and t.text in "([{<":
            depth += 1
        elif t.kind == "punct" and t.text in ")]}>":
            depth -= 1
        elif t.kind == "punct" and t.text == "," and depth == 0:
            parts.append(fn_text[cur_start:t.start]); cur_start = t.end
        j += 1
    last = fn_text[cur_start:toks[pc].start]
    if last.strip():
        parts.append(last)
    for part in parts:
        m = re.match(r"^\s*(?:mut\s+)?([a-z_][a-z0-9_]*)\s*:\s*(.+?)\s*$", part, re.S)
        if not m:
            return None
        ty = m.group(2)
        params.append((m.group(1), None if "'" in ty or "impl" in ty else ty))
    # body: a single expression (inlineable anywhere) — or any statements (inlineable only where the call is the tail
    # expression of its caller: `?` and `return` in the body then leave the same frame as before, with the same type)
    body_toks = [t for t in toks[sh.body_open + 1:sh.body_close] if t.kind not in ("ws", "comment")]
    if not body_toks:
        return None
    expr = fn_text[toks[sh.body_open].end:toks[sh.body_close].start].strip()
    if _r13_single_expression(body_toks):
        return name, params, expr, False
    if any(t.kind == "ident" and t.text in ("self", "Self", "async", "await", "unsafe") for t in body_toks):
        return None
    return name, params, expr, True


def _r13_single_expression(body_toks):
    depth = 0
    for t in body_toks:
        if t.kind == "punct" and t.text in "([{":
            depth += 1
        elif t.kind == "punct" and t.text in ")]}":
            depth -= 1
        elif t.kind == "punct" and t.text == ";" and depth == 0:
            return None
        if t.kind == "punct" and t.text == "?":
            return None
        if t.kind == "ident" and t.text in _R13_FORBIDDEN:
            return None
        if t.kind == "ident" and t.text == "let" and depth == 0:
            return None
    return True


def r13_inline_helpers(text, helpers, log):
    """R13: `h(a, b)` -> `({ let (p1, p2): (T1, T2) = (a, b); EXPR })` (one parameter: `let p1: T1 = a;`) for every helper h in
    `helpers` (name -> (params, expr)). Arguments are evaluated once, in order, before the body — what a call does."""
    if not helpers:
        return text
    for _round in range(4):                       # helpers calling helpers
        toks = lex(text)
        edit = None
        for k, t in enumerate(toks):
            if t.kind != "ident" or t.text not in helpers:
                continue
            n = _next_code(toks, k)
            pr = _prev_code(toks, k)
            if n is None or toks[n].text != "(":
                continue
            if pr is not None and (toks[pr].text in ("fn", ".") or (toks[pr].text == ":" and pr > 0 and toks[pr - 1].text == ":")):
                continue
            close = match_close(toks, n)
            args, depth, cur = [], 0, toks[n].end
            for j in range(n + 1, close):
                tt = toks[j]
                if tt.kind == "punct" and tt.text in "([{":
                    depth += 1
                elif tt.kind == "punct" and tt.text in ")]}":
                    depth -= 1
                elif tt.kind == "punct" and tt.text == "," and depth == 0:
                    args.append(text[cur:tt.start].strip()); cur = tt.end
            lastarg = text[cur:toks[close].start].strip()
            if lastarg:
                args.append(lastarg)
            params, expr, tail_only = helpers[t.text]
            if len(args) != len(params):
                continue
            if tail_only:
                # the call must be the tail expression of the function body it stands in
                try:
                    shc = FnShape(text)
                except Exception:
                    continue
                nx = _next_code(toks, close)
                if shc.body_open is None or nx != shc.body_close or pr is None or toks[pr].text not in ("{", ";", "}"):
                    continue
            # arguments are evaluated once, left to right, before any parameter is bound (one tuple `let`; typed, so that
            # the text never looks like a `let p =` of the caller that an anchor of a template names)
            if all(ty is not None for (_p, ty) in params) and params:
                if len(params) == 1:
                    lets = f"let {params[0][0]}: {params[0][1]} = {args[0]}; "
                else:
                    lets = ("let (" + ", ".join(p for (p, _t) in params) + "): (" + ", ".join(t_ for (_p, t_) in params)
                            + ") = (" + ", ".join(args) + "); ")
            else:
                lets = "".join(f"let {p}__{'' if ty is None else ': ' + ty} = {a}; " for (p, ty), a in zip(params, args))
                lets += "".join(f"let {p} = {p}__; " for (p, _ty) in params)
            edit = (t.start, toks[close].end, ("{ " + lets + "\n" + expr + "\n}") if tail_only else ("({ " + lets + expr + " })"))
            log.append(("R13", f"call of helper `{t.text}` (a function without contract; " + ("statements, inlined in tail position" if tail_only else "single expression") + ") inlined"))
            break
        if edit is None:
            return text
        text = apply_edits(text, [edit])
    return text


# ------------------------------------------------------------------------------------------------
# R14: slice operations Verus cannot attach a specification to (trait methods of `slice::Iter` with extra where-bounds,
# generic `contains`) are replaced by calls of model functions declared in prelude/std_specs.vrs with std's documented
# meaning:  E.iter().rposition(P) -> vx_rposition(&E, P)      E.contains(X) -> vx_contains(&E, X)
# ------------------------------------------------------------------------------------------------
def _receiver_start(toks, dot_k):
    """index of the first token of the postfix expression that ends right before the `.` at dot_k"""
    k = _prev_code(toks, dot_k)
    while k is not None:
        t = toks[k]
        if t.kind == "punct" and t.text in ")]":
            # find the matching opener
            depth, j = 0, k
            while j >= 0:
                if toks[j].kind == "punct" and toks[j].text in ")]}":
                    depth += 1
                elif toks[j].kind == "punct" and toks[j].text in "([{":
                    depth -= 1
                    if depth == 0:
                        break
                j -= 1
            k = j
            p = _prev_code(toks, k)
            if p is not None and (toks[p].kind == "ident" or (toks[p].kind == "punct" and toks[p].text in ")]")):
                k = p
                continue
            return k
        if t.kind == "ident" or t.kind == "number":
            p = _prev_code(toks, k)
            if p is not None and toks[p].kind == "punct" and toks[p].text == ".":
                k = _prev_code(toks, p)
                continue
            if p is not None and toks[p].text == ":" and p > 0 and toks[p - 1].text == ":":
                k = _prev_code(toks, p - 1)
                continue
            return k
        return k
    return None


def r14_slice_models(text, log):
    for _round in range(8):
        toks = lex(text)
        edit = None
        for k, t in enumerate(toks):
            if t.kind != "ident" or t.text not in ("rposition", "contains"):
                continue
            dot = _prev_code(toks, k)
            par = _next_code(toks, k)
            if dot is None or toks[dot].text != "." or par is None or toks[par].text != "(":
                continue
            close = match_close(toks, par)
            arg = text[toks[par].end:toks[close].start].strip()
            if t.text == "rposition":
                # receiver must end in `.iter()`
                c2 = _prev_code(toks, dot)            # `)`
                o2 = _prev_code(toks, c2) if c2 is not None else None   # `(`
                it = _prev_code(toks, o2) if o2 is not None else None   # `iter`
                d2 = _prev_code(toks, it) if it is not None else None   # `.`
                if None in (c2, o2, it, d2) or toks[c2].text != ")" or toks[o2].text != "(" or toks[it].text != "iter" or toks[d2].text != ".":
                    continue
                rs = _receiver_start(toks, d2)
                if rs is None:
                    continue
                recv = text[toks[rs].start:toks[_prev_code(toks, d2)].end]
                edit = (toks[rs].start, toks[close].end, f"vx_rposition(&{recv}, {arg})")
                log.append(("R14", f"`{recv}.iter().rposition(..)` -> model function vx_rposition (prelude/std_specs.vrs)"))
            else:
                rs = _receiver_start(toks, dot)
                if rs is None:
                    continue
                recv = text[toks[rs].start:toks[_prev_code(toks, dot)].end]
                if not re.search(r"\[.*\.\..*\]\s*$", recv, re.S):      # only sub-slice expressions `x[a..b]` (a slice for sure)
                    continue
                edit = (toks[rs].start, toks[close].end, f"vx_contains(&{recv}, {arg})")
                log.append(("R14", f"`{recv}.contains(..)` -> model function vx_contains (prelude/std_specs.vrs)"))
            break
        if edit is None:
            return text
        text = apply_edits(text, [edit])
    return text

# ------------------------------------------------------------------------------------------------
# R15: unnecessary lazy evaluation (clippy::unnecessary_lazy_evaluations, read backwards). In a function for which the
# template names no closure, a closure that ignores its parameter and whose body is a path (a constant or a unit enum
# variant: no evaluation, no side effect) is passed by value to the eager twin of the combinator:
#   X.map_err(|_| P) -> X.or(Err(P))    X.unwrap_or_else(|_| P) / (|| P) -> X.unwrap_or(P)    X.ok_or_else(|| P) -> X.ok_or(P)
# ------------------------------------------------------------------------------------------------
_R15 = {"map_err": ("or", "Err({})", 1), "unwrap_or_else": ("unwrap_or", "{}", None), "ok_or_else": ("ok_or", "{}", 0)}
_R15_ARG = re.compile(r"^\|\s*(_[A-Za-z0-9_]*)?\s*\|\s*([A-Za-z_][A-Za-z0-9_]*(?:\s*::\s*[A-Za-z_][A-Za-z0-9_]*)*)$", re.S)


def r15_eager_twins(text, log):
    for _round in range(8):
        toks = lex(text)
        edit = None
        for k, t in enumerate(toks):
            if t.kind != "ident" or t.text not in _R15:
                continue
            dot = _prev_code(toks, k)
            par = _next_code(toks, k)
            if dot is None or toks[dot].text != "." or par is None or toks[par].text != "(":
                continue
            close = match_close(toks, par)
            arg = text[toks[par].end:toks[close].start].strip()
            m = _R15_ARG.match(arg)
            if not m:
                continue
            twin, fmt, nparams = _R15[t.text]
            has_param = m.group(1) is not None
            if nparams is not None and has_param != (nparams == 1):
                continue
            path = re.sub(r"\s+", "", m.group(2))
            if path[0].islower() and "::" not in path:      # a local variable: moving it out of the closure may not be neutral
                continue
            edit = (t.start, toks[close].end, f"{twin}({fmt.format(path)})")
            log.append(("R15", f"`.{t.text}({arg})` -> `.{twin}({fmt.format(path)})` (closure ignores its parameter, body is a path: eager twin)"))
            break
        if edit is None:
            return text
        text = apply_edits(text, [edit])
    return text
