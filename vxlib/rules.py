"""Item-specific rewrite rules (R2..R6, R10), selected per item with `#rules`. Each logs what it did."""
import re
from .rustlex import lex, match_close, norm
from .weave import apply_edits, Unsupported, _next_code, _prev_code
