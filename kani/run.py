#!/usr/bin/env python3
"""Bounded cross-check of microscpi with Kani (cargo kani, offline).

    python3 /verif/kani/run.py [--repo /repo] [--harness NAME ...] [--jobs 8] [--timeout 300]

Builds ONE scratch copy of the CURRENT working tree of the repository, installs
the harness modules of this directory into it, compiles once, runs the requested
harnesses in parallel (each under `timeout`) and prints one JSON object per
harness on stdout.  The scratch directory (with its target dir) is always removed.

Exit code: 0 all pass, 1 at least one "fail", 2 otherwise (timeout / error only).

A NAME that is not a harness but a prefix of harness names followed by `_`
selects the whole group (`k_error_queue` -> `k_error_queue_1`, `_2`, `_3`).
"""

import argparse
import concurrent.futures
import json
import os
import re
import shutil
import signal
import subprocess
import sys
import tempfile
import threading
import time

HERE = os.path.dirname(os.path.abspath(__file__))

# (file in this directory, destination in the scratch workspace,
#  file that gets the `mod` line appended, the `mod` line)
INSTALL = [
    (
        "harness.rs",
        "microscpi/src/verif_kani.rs",
        "microscpi/src/lib.rs",
        "\n#[cfg(kani)]\nmod verif_kani;\n",
    ),
    (
        "harness_parser.rs",
        "microscpi/src/verif_kani_parser.rs",
        "microscpi/src/parser.rs",
        '\n#[cfg(kani)]\n#[path = "verif_kani_parser.rs"]\nmod verif_kani;\n',
    ),
]

# Flags of every verification run.  (`-Z stubbing`: k_arguments_* replace
# core::str::from_utf8 by an ASCII-only stand-in.)
KANI_FLAGS = ["-Z", "stubbing"]
# Only for the second run of a FAILED harness: makes Kani print the concrete
# values of the kani::any() calls.  Not used in the first run because it slows
# down every (also every successful) run by about 50 %.
PLAYBACK_FLAGS = ["-Z", "concrete-playback", "--concrete-playback=print"]

CODEGEN_TIMEOUT = 1200

_print_lock = threading.Lock()


def emit(obj):
    with _print_lock:
        sys.stdout.write(json.dumps(obj) + "\n")
        sys.stdout.flush()


def log(msg):
    with _print_lock:
        sys.stderr.write("[kani/run.py] " + msg + "\n")
        sys.stderr.flush()


def make_env():
    env = dict(os.environ)
    env["CARGO_NET_OFFLINE"] = "true"
    env["CARGO_TERM_COLOR"] = "never"
    # the target dir has to live inside the scratch copy
    env.pop("CARGO_TARGET_DIR", None)
    env.pop("CARGO_BUILD_TARGET_DIR", None)
    return env


def build_scratch(repo):
    """Copies the working tree (not target/, not the fuzz crate) and installs the harnesses."""
    scratch = tempfile.mkdtemp(prefix="kani_run_")
    try:
        ignore = shutil.ignore_patterns("target", "fuzz", ".git")
        for d in ("microscpi", "microscpi-macros"):
            shutil.copytree(os.path.join(repo, d), os.path.join(scratch, d), ignore=ignore)
        for f in ("Cargo.toml", "Cargo.lock"):
            shutil.copy(os.path.join(repo, f), os.path.join(scratch, f))
        # README.md is referenced by the crate (`readme = "../README.md"`, doctest include)
        readme = os.path.join(repo, "README.md")
        if os.path.exists(readme):
            shutil.copy(readme, os.path.join(scratch, "README.md"))

        # the fuzz crate needs dependencies that are not required here
        manifest = os.path.join(scratch, "Cargo.toml")
        text = open(manifest).read()
        text = re.sub(r',?\s*"microscpi/fuzz"\s*,?', lambda m: "," if m.group(0).count(",") == 2 else "", text)
        open(manifest, "w").write(text)

        for src, dst, mod_file, mod_line in INSTALL:
            shutil.copy(os.path.join(HERE, src), os.path.join(scratch, dst))
            with open(os.path.join(scratch, mod_file), "a") as fh:
                fh.write(mod_line)
        return scratch
    except BaseException:
        shutil.rmtree(scratch, ignore_errors=True)
        raise


# `cargo kani --harness X` recompiles the crate for X (fast, under cargo's lock
# on the target dir) and then reads the metadata file that this compilation
# wrote.  Two invocations must not interleave between these two steps, so the
# phase up to Kani's "Checking harness" line is serialised.
_compile_lock = threading.Lock()


def run_cmd(cmd, cwd, timeout, serialise_until=None):
    """Runs cmd in its own process group; kills the whole group on timeout.
    Returns (returncode or None on timeout, output, seconds)."""
    held = False
    if serialise_until is not None:
        _compile_lock.acquire()
        held = True
    start = time.time()
    proc = None
    timed_out = threading.Event()
    timer = None
    try:
        proc = subprocess.Popen(
            cmd,
            cwd=cwd,
            env=make_env(),
            stdout=subprocess.PIPE,
            stderr=subprocess.STDOUT,
            start_new_session=True,
            text=True,
            errors="replace",
        )

        def kill():
            timed_out.set()
            try:
                os.killpg(proc.pid, signal.SIGKILL)
            except ProcessLookupError:
                pass

        timer = threading.Timer(timeout, kill)
        timer.daemon = True
        timer.start()
        lines = []
        for line in proc.stdout:
            lines.append(line)
            if held and line.startswith(serialise_until):
                _compile_lock.release()
                held = False
        proc.wait()
        out = "".join(lines)
        return (None if timed_out.is_set() else proc.returncode), out, time.time() - start
    except BaseException:
        if proc is not None:
            try:
                os.killpg(proc.pid, signal.SIGKILL)
            except ProcessLookupError:
                pass
        raise
    finally:
        if timer is not None:
            timer.cancel()
        if held:
            _compile_lock.release()


def last_lines(text, n=25):
    lines = [l for l in text.splitlines() if l.strip()]
    return "\n".join(l[:400] for l in lines[-n:])


def first_error(text, n=30):
    """The compiler's first `error` with the lines that follow it (else the last lines)."""
    lines = text.splitlines()
    for i, line in enumerate(lines):
        if line.startswith("error"):
            return "\n".join(l[:400] for l in lines[i:i + n])
    return last_lines(text, n)


def failed_checks(out):
    """The 'Failed Checks:' block of Kani's summary."""
    res = []
    lines = out.splitlines()
    for i, line in enumerate(lines):
        if line.startswith("Failed Checks:"):
            item = line[len("Failed Checks:"):].strip()
            if i + 1 < len(lines) and lines[i + 1].strip().startswith("File:"):
                item += " @ " + lines[i + 1].strip()[len("File:"):].strip()
            res.append(item)
    return res


def counterexample(out):
    """Concrete values of the kani::any() calls, in call order, as printed by
    --concrete-playback=print (None when Kani printed none)."""
    m = re.search(r"let concrete_vals: Vec<Vec<u8>> = vec!\[(.*?)\];", out, re.S)
    if not m:
        return None
    vals = re.findall(r"^\s*//\s*(.+?)\s*$", m.group(1), re.M)
    if not vals:
        return None
    return "kani::any() values in call order: [" + ", ".join(vals) + "]"


def run_harness(entry, workdir, timeout):
    name = entry["name"]
    # `--harness` is a substring filter; the names in harnesses.json are chosen
    # so that none contains another (checked below: one verdict, right harness)
    cmd = ["cargo", "kani"] + KANI_FLAGS + ["--harness", name]
    rc, out, secs = run_cmd(cmd, workdir, timeout, serialise_until="Checking harness")
    res = {
        "harness": name,
        "status": None,
        "seconds": round(secs, 1),
        "bound": entry.get("bound", ""),
        "complete": bool(entry.get("complete", False)),
        "property": entry.get("property", []),
        "counterexample": None,
        "detail": None,
    }
    verdicts = re.findall(r"^VERIFICATION:- (\w+)", out, re.M)
    checked = re.findall(r"^Checking harness (\S+?)\.\.\.", out, re.M)
    if rc is None:
        res["status"] = "timeout"
        res["detail"] = "no verdict within %d s\n%s" % (timeout, last_lines(out, 5))
    elif len(verdicts) != 1 or len(checked) != 1 or checked[0].split("::")[-1] != name:
        # did not get to verification (compile error, unknown harness), or the
        # filter selected something else than exactly this harness
        res["status"] = "error"
        res["detail"] = ("%d verdicts, harnesses checked %s, exit code %s\n" % (len(verdicts), checked, rc)) \
            + last_lines(out)
    elif verdicts[0] == "SUCCESSFUL" and rc == 0:
        res["status"] = "pass"
    elif verdicts[0] == "FAILED":
        res["status"] = "fail"
        checks = failed_checks(out)
        res["detail"] = "\n".join(checks) if checks else last_lines(out)
    else:
        res["status"] = "error"
        res["detail"] = ("verdict %s, exit code %s\n" % (verdicts[0], rc)) + last_lines(out)
    return res


def add_counterexample(res, workdir, timeout):
    """Second run of a failed harness, with concrete playback."""
    cmd = ["cargo", "kani"] + KANI_FLAGS + PLAYBACK_FLAGS + ["--harness", res["harness"]]
    rc, out, secs = run_cmd(cmd, workdir, timeout, serialise_until="Checking harness")
    res["counterexample"] = counterexample(out)
    res["seconds_counterexample_run"] = round(secs, 1)


def select(all_entries, wanted):
    if not wanted:
        return [e for e in all_entries if e.get("default", True)], []
    by_name = {e["name"]: e for e in all_entries}
    chosen, unknown = [], []
    for w in wanted:
        if w in by_name:
            group = [by_name[w]]
        else:
            group = [e for e in all_entries if e["name"].startswith(w + "_")]
        if not group:
            unknown.append(w)
        for e in group:
            if e not in chosen:
                chosen.append(e)
    return chosen, unknown


def main():
    ap = argparse.ArgumentParser(description=__doc__, formatter_class=argparse.RawDescriptionHelpFormatter)
    ap.add_argument("--repo", default="/repo")
    ap.add_argument("--harness", nargs="+", action="append", default=[], metavar="NAME")
    ap.add_argument("--jobs", type=int, default=8)
    ap.add_argument("--timeout", type=int, default=300, help="seconds per harness")
    ap.add_argument("--list", action="store_true", help="list the harnesses and exit")
    args = ap.parse_args()

    entries = json.load(open(os.path.join(HERE, "harnesses.json")))
    if args.list:
        for e in entries:
            print("%-28s %-14s %-9s %s" % (e["name"], ",".join(e["property"]), "complete" if e["complete"] else "bounded", "" if e.get("default", True) else "(not in the default set)"))
        return 0

    wanted = [n for group in args.harness for n in group]
    chosen, unknown = select(entries, wanted)
    results = []
    for w in unknown:
        r = {"harness": w, "status": "error", "seconds": 0.0, "bound": "", "complete": False,
             "property": [], "counterexample": None, "detail": "no such harness in harnesses.json"}
        emit(r)
        results.append(r)

    def on_term(signum, frame):
        raise SystemExit(2)

    signal.signal(signal.SIGTERM, on_term)

    repo = os.path.abspath(args.repo)
    scratch = None
    try:
        if chosen:
            try:
                scratch = build_scratch(repo)
            except (OSError, shutil.Error) as exc:
                for e in chosen:
                    r = {"harness": e["name"], "status": "error", "seconds": 0.0,
                         "bound": e.get("bound", ""), "complete": bool(e.get("complete", False)),
                         "property": e.get("property", []), "counterexample": None,
                         "detail": "cannot build the scratch copy of %s: %s" % (repo, exc)}
                    emit(r)
                    results.append(r)
                return 2
            workdir = os.path.join(scratch, "microscpi")
            log("scratch copy of %s in %s" % (repo, scratch))

            # compile once (dependencies, the crate, all harnesses); the
            # harness runs below find everything fresh and go straight to CBMC
            rc, out, secs = run_cmd(["cargo", "kani"] + KANI_FLAGS + ["--only-codegen"], workdir, CODEGEN_TIMEOUT)
            log("codegen: %.1f s, exit code %s" % (secs, rc))
            if rc != 0:
                detail = "cargo kani --only-codegen: " + ("timeout" if rc is None else "exit code %s" % rc)
                detail += "\n" + first_error(out)
                for e in chosen:
                    r = {"harness": e["name"], "status": "error", "seconds": round(secs, 1),
                         "bound": e.get("bound", ""), "complete": bool(e.get("complete", False)),
                         "property": e.get("property", []), "counterexample": None, "detail": detail}
                    emit(r)
                    results.append(r)
            else:
                with concurrent.futures.ThreadPoolExecutor(max_workers=max(1, args.jobs)) as pool:
                    def job(e):
                        r = run_harness(e, workdir, args.timeout)
                        if r["status"] == "fail":
                            add_counterexample(r, workdir, args.timeout)
                        return r

                    futs = [pool.submit(job, e) for e in chosen]
                    for f in concurrent.futures.as_completed(futs):
                        r = f.result()
                        emit(r)
                        results.append(r)
    finally:
        if scratch is not None:
            shutil.rmtree(scratch, ignore_errors=True)

    statuses = [r["status"] for r in results]
    if statuses and all(s == "pass" for s in statuses):
        return 0
    if any(s == "fail" for s in statuses):
        return 1
    return 2


if __name__ == "__main__":
    sys.exit(main())
