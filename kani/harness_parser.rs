//! Kani harnesses for the PRIVATE items of `microscpi/src/parser.rs`.
//!
//! The runner copies this file to `microscpi/src/verif_kani_parser.rs` and appends
//!     #[cfg(kani)] #[path = "verif_kani_parser.rs"] mod verif_kani;
//! to the END of `microscpi/src/parser.rs`, so that `super::*` reaches the private
//! parser functions.
//!
//! Every harness compares the code under test with an executable ORACLE that is
//! written from the property text (IEEE 488.2 / the property catalogue), not from
//! the code under test.

use super::*;

// ---------------------------------------------------------------------------
// helpers
// ---------------------------------------------------------------------------

/// What the oracle expects from a `&[u8] -> ParseResult<Value>` parser.
enum Expect<'a> {
    /// `Err(ParseError::Incomplete)`
    Incomplete,
    /// `Err(e)` with `e != ParseError::Incomplete`
    Rejected,
    /// `Ok((rest, value))`, value carrying exactly `payload`
    Accepted { rest: &'a [u8], payload: &'a [u8] },
}

/// A symbolic input: `N` bytes, each drawn from `alphabet`, of which the first
/// `len <= N` are used.
fn any_input<const N: usize>(alphabet: &[u8]) -> ([u8; N], usize) {
    let mut buf = [0u8; N];
    let mut i = 0;
    while i < N {
        let b: u8 = kani::any();
        let mut ok = false;
        let mut k = 0;
        while k < alphabet.len() {
            if alphabet[k] == b {
                ok = true;
            }
            k += 1;
        }
        kani::assume(ok);
        buf[i] = b;
        i += 1;
    }
    let len: usize = kani::any();
    kani::assume(len <= N);
    (buf, len)
}

/// Same slice: same start address and same length (so also the same content).
fn same_slice(a: &[u8], b: &[u8]) -> bool {
    a.as_ptr() == b.as_ptr() && a.len() == b.len()
}

/// Compares a parser result with the expectation.  `payload_of` extracts the
/// payload bytes of the accepted value kind (None: wrong kind of value).
fn check<'a>(
    got: ParseResult<'a, Value<'a>>, want: Expect<'a>,
    payload_of: fn(&Value<'a>) -> Option<&'a [u8]>,
) {
    match want {
        Expect::Incomplete => assert!(matches!(got, Err(ParseError::Incomplete))),
        Expect::Rejected => match got {
            Err(ParseError::Incomplete) => panic!("reported Incomplete for malformed data"),
            Err(_) => {}
            Ok(_) => panic!("accepted malformed data"),
        },
        Expect::Accepted { rest, payload } => match got {
            Ok((got_rest, value)) => {
                assert!(same_slice(got_rest, rest));
                match payload_of(&value) {
                    Some(got_payload) => {
                        assert!(same_slice(got_payload, payload));
                        // byte-for-byte, redundant with same_slice but states the property
                        let mut i = 0;
                        while i < payload.len() {
                            assert!(got_payload[i] == payload[i]);
                            i += 1;
                        }
                    }
                    None => panic!("wrong kind of value"),
                }
            }
            Err(_) => panic!("rejected well-formed data"),
        },
    }
}

// ---------------------------------------------------------------------------
// k_is_whitespace  (C11) -- COMPLETE: all 256 byte values, no loop.
// ---------------------------------------------------------------------------

/// IEEE 488.2 7.4.1.2 white space: every code 0..=32 except NL (10).
#[kani::proof]
fn k_is_whitespace() {
    let b: u8 = kani::any();
    let oracle = b <= 9 || (11..=32).contains(&b);
    assert!(is_whitespace(b) == oracle);
}

// ---------------------------------------------------------------------------
// k_arbitrary_block  (C05, C08, C12) -- bounded: length 0..=7, alphabet of 7.
// ---------------------------------------------------------------------------

/// Definite length arbitrary block: `#` `d` `<d count digits>` `<count bytes>`.
fn oracle_block(inp: &[u8]) -> Expect<'_> {
    if inp.is_empty() {
        return Expect::Incomplete;
    }
    if inp[0] != b'#' {
        return Expect::Rejected;
    }
    if inp.len() == 1 {
        return Expect::Incomplete;
    }
    let c = inp[1];
    // only 1..=8 count digits are supported; '0' (indefinite) and '9' are rejected
    if !(c >= b'1' && c <= b'8') {
        return Expect::Rejected;
    }
    let d = (c - b'0') as usize;
    if inp.len() - 2 < d {
        return Expect::Incomplete;
    }
    let mut count: usize = 0;
    let mut k = 0;
    while k < d {
        let x = inp[2 + k];
        if !(x >= b'0' && x <= b'9') {
            return Expect::Rejected;
        }
        count = count * 10 + (x - b'0') as usize;
        k += 1;
    }
    let start = 2 + d;
    if inp.len() - start < count {
        return Expect::Incomplete;
    }
    Expect::Accepted {
        rest: &inp[start + count..],
        payload: &inp[start..start + count],
    }
}

fn arbitrary_payload<'a>(v: &Value<'a>) -> Option<&'a [u8]> {
    match v {
        Value::Arbitrary(data) => Some(data),
        _ => None,
    }
}

/// Bound: input length <= 7.  Longest loop: 7 iterations (input construction,
/// `position`, utf-8 validation, `from_str_radix` over <= 5 count digits), the
/// alphabet scan has 7 iterations; unwind 9 leaves one spare iteration and the
/// unwinding assertions confirm that it is enough.
#[kani::proof]
#[kani::unwind(9)]
fn k_arbitrary_block() {
    const ALPHABET: [u8; 7] = [b'#', b'0', b'1', b'2', b'3', b'a', b'\n'];
    let (buf, len) = any_input::<7>(&ALPHABET);
    let inp = &buf[..len];
    check(arbitrary_program_data(inp), oracle_block(inp), arbitrary_payload);
}

// ---------------------------------------------------------------------------
// k_quoted_string  (C08, C12) -- bounded: length 0..=6, alphabet of 6.
// ---------------------------------------------------------------------------

/// `q` <anything but q>* `q`
fn oracle_quoted(inp: &[u8], q: u8) -> Expect<'_> {
    if inp.is_empty() {
        return Expect::Incomplete;
    }
    if inp[0] != q {
        return Expect::Rejected;
    }
    let mut k = 1;
    while k < inp.len() {
        if inp[k] == q {
            return Expect::Accepted {
                rest: &inp[k + 1..],
                payload: &inp[1..k],
            };
        }
        k += 1;
    }
    Expect::Incomplete
}

fn string_payload<'a>(v: &Value<'a>) -> Option<&'a [u8]> {
    match v {
        Value::String(data) => Some(data.as_bytes()),
        _ => None,
    }
}

const QUOTED_ALPHABET: [u8; 6] = [b'\'', b'"', b'a', b';', b'\n', b','];

/// Bound: input length <= 6; longest loop 6 iterations; unwind 8.
#[kani::proof]
#[kani::unwind(8)]
fn k_quoted_string_single() {
    let (buf, len) = any_input::<6>(&QUOTED_ALPHABET);
    let inp = &buf[..len];
    check(
        single_quoted_string_program_data(inp),
        oracle_quoted(inp, b'\''),
        string_payload,
    );
}

/// Bound: as `k_quoted_string_single`.
#[kani::proof]
#[kani::unwind(8)]
fn k_quoted_string_double() {
    let (buf, len) = any_input::<6>(&QUOTED_ALPHABET);
    let inp = &buf[..len];
    check(
        double_quoted_string_program_data(inp),
        oracle_quoted(inp, b'"'),
        string_payload,
    );
}

// ---------------------------------------------------------------------------
// k_arguments_max  (C03, C05) -- two concrete parameter lists: MAX_ARGS and
// MAX_ARGS + 1 parameters.
// ---------------------------------------------------------------------------

/// Replacement for `core::str::from_utf8` in `k_arguments_max` (`-Z stubbing`).
///
/// CBMC does not constant-fold the slice iterators of the parser, so every loop
/// is unwound up to the bound even on concrete input; core's utf-8 validator has
/// two nested loops and is called once per parameter, which alone exceeds the
/// time limit.  The stub agrees with the original on ASCII data and ASSERTS that
/// it only ever sees ASCII data (it cannot hide anything: on other data the
/// harness fails).
#[allow(dead_code)]
fn ascii_only_from_utf8(v: &[u8]) -> Result<&str, Utf8Error> {
    let mut i = 0;
    while i < v.len() {
        assert!(v[i] < 128, "from_utf8 stub: only valid for ASCII data");
        i += 1;
    }
    Ok(unsafe { str::from_utf8_unchecked(v) })
}

/// Stand-in for the alternatives of `argument` that come after the decimal
/// number.  On a list of decimal numbers they are never tried; the stand-in
/// PANICS when it is called, so the proof shows that they are indeed not called
/// (hence replacing them changes nothing), while the spurious pass described at
/// `run_arguments` gets much cheaper.
#[allow(dead_code)]
fn never_tried(_input: &[u8]) -> ParseResult<'_, Value<'_>> {
    panic!("alternative after decimal_numeric_program_data tried on a decimal list")
}

fn is_decimal_digit(v: &Value<'_>, digit: u8) -> bool {
    match v {
        Value::Decimal(s) => s.len() == 1 && s.as_bytes()[0] == digit,
        _ => false,
    }
}

/// Runs the (private) parameter list parser `arguments`, which is what `parse`
/// calls right after the header, on a concrete list.
///
/// Why not `parse`: CBMC's symbolic execution cannot constant-fold the niche
/// encoded discriminant of `ParseResult<()>` (`header_separator`,
/// `argument_separator`), so every `match` on such a result forks even on
/// concrete input, and the `Ok` arm continues with an unconstrained slice.  In
/// `parse` that happens at the first `optional(header_separator)`, after which
/// the whole header / parameter machinery is explored for arbitrary data up to
/// the unwinding bound (> 15 min, measured).  In `arguments` it only happens at
/// the separator AFTER the last parameter, which costs one spurious exploration
/// of `argument`.
fn run_arguments<'a>(
    input: &'a [u8], args: &mut Vec<Value<'a>, MAX_ARGS>,
) -> ParseResult<'a, ()> {
    let mut parser = arguments(args);
    parser(input)
}

/// The 8th, 9th and 10th parameter: accepted.  `arguments` is started with a
/// list that already holds 7 delivered parameters (the state it is in after 7
/// passes; it keeps no other state than `args` and the input position), so that
/// the boundary MAX_ARGS = 10 is reached with 2 jumps back instead of 9.
///
/// Bound: one concrete input; 2 jumps back (parameters 9 and 10), the 3rd pass
/// leaves at the separator; unwind 3 (the unwinding assertion proves that there
/// is no 3rd jump back).
#[kani::proof]
#[kani::unwind(3)]
#[kani::stub(core::str::from_utf8, ascii_only_from_utf8)]
#[kani::stub(hexadecimal_numeric_program_data, never_tried)]
#[kani::stub(binary_numeric_program_data, never_tried)]
#[kani::stub(octal_numeric_program_data, never_tried)]
#[kani::stub(single_quoted_string_program_data, never_tried)]
#[kani::stub(double_quoted_string_program_data, never_tried)]
#[kani::stub(arbitrary_program_data, never_tried)]
fn k_arguments_max_10() {
    let input: &[u8] = b"8,9,0\n";
    let mut args: Vec<Value<'_>, MAX_ARGS> = Vec::new();
    assert!(args.push(Value::Decimal("1")).is_ok());
    assert!(args.push(Value::Decimal("2")).is_ok());
    assert!(args.push(Value::Decimal("3")).is_ok());
    assert!(args.push(Value::Decimal("4")).is_ok());
    assert!(args.push(Value::Decimal("5")).is_ok());
    assert!(args.push(Value::Decimal("6")).is_ok());
    assert!(args.push(Value::Decimal("7")).is_ok());
    match run_arguments(input, &mut args) {
        Ok((rest, ())) => assert!(same_slice(rest, &input[input.len() - 1..])),
        Err(_) => panic!("parameters 8, 9 and 10 must be accepted"),
    }
    assert!(MAX_ARGS == 10);
    assert!(args.len() == 10);
    assert!(is_decimal_digit(&args[0], b'1'));
    assert!(is_decimal_digit(&args[1], b'2'));
    assert!(is_decimal_digit(&args[2], b'3'));
    assert!(is_decimal_digit(&args[3], b'4'));
    assert!(is_decimal_digit(&args[4], b'5'));
    assert!(is_decimal_digit(&args[5], b'6'));
    assert!(is_decimal_digit(&args[6], b'7'));
    assert!(is_decimal_digit(&args[7], b'8'));
    assert!(is_decimal_digit(&args[8], b'9'));
    assert!(is_decimal_digit(&args[9], b'0'));
}

/// Exactly MAX_ARGS (10) parameters: accepted, all of them delivered in order,
/// the terminator is left for the caller.
///
/// Bound: one concrete input.  The parameter loop of `arguments` jumps back 9
/// times (parameters 2..=10), the 10th pass leaves at the separator; every other
/// loop (white space, digits, stubbed utf-8 check) runs at most once on this
/// input; unwind 10 (= 9 jumps back; the unwinding assertion proves that there is
/// no 10th).  A larger bound only adds spurious passes (see `run_arguments`),
/// each costs about 90 s of symbolic execution.
///
/// NOT in the default set (`"default": false` in harnesses.json): about 170 s on
/// an idle machine, which is too close to the 300 s limit when 8 harnesses run
/// in parallel.  `k_arguments_max_10` checks the same boundary cheaply.
#[kani::proof]
#[kani::unwind(10)]
#[kani::stub(core::str::from_utf8, ascii_only_from_utf8)]
#[kani::stub(hexadecimal_numeric_program_data, never_tried)]
#[kani::stub(binary_numeric_program_data, never_tried)]
#[kani::stub(octal_numeric_program_data, never_tried)]
#[kani::stub(single_quoted_string_program_data, never_tried)]
#[kani::stub(double_quoted_string_program_data, never_tried)]
#[kani::stub(arbitrary_program_data, never_tried)]
fn k_arguments_direct_10() {
    let input: &[u8] = b"1,2,3,4,5,6,7,8,9,0\n";
    let mut args: Vec<Value<'_>, MAX_ARGS> = Vec::new();
    match run_arguments(input, &mut args) {
        Ok((rest, ())) => assert!(same_slice(rest, &input[input.len() - 1..])),
        Err(_) => panic!("10 parameters must be accepted"),
    }
    assert!(MAX_ARGS == 10);
    assert!(args.len() == 10);
    assert!(is_decimal_digit(&args[0], b'1'));
    assert!(is_decimal_digit(&args[1], b'2'));
    assert!(is_decimal_digit(&args[2], b'3'));
    assert!(is_decimal_digit(&args[3], b'4'));
    assert!(is_decimal_digit(&args[4], b'5'));
    assert!(is_decimal_digit(&args[5], b'6'));
    assert!(is_decimal_digit(&args[6], b'7'));
    assert!(is_decimal_digit(&args[7], b'8'));
    assert!(is_decimal_digit(&args[8], b'9'));
    assert!(is_decimal_digit(&args[9], b'0'));
}

/// MAX_ARGS + 1 parameters: an error (not Incomplete), no panic, and no silent
/// truncation to the first 10.
///
/// Bound: one concrete input.  9 jumps back, the 10th pass (parameter 11) has to
/// return the error; a version that wrongly keeps going needs a 10th jump back
/// and an 11th pass to return `Ok`, which unwind 11 still covers (so such a
/// version is reported as a failed assertion, not as an unwinding failure).
#[kani::proof]
#[kani::unwind(11)]
#[kani::stub(core::str::from_utf8, ascii_only_from_utf8)]
fn k_arguments_max_11() {
    let input: &[u8] = b"1,2,3,4,5,6,7,8,9,0,1\n";
    let mut args: Vec<Value<'_>, MAX_ARGS> = Vec::new();
    match run_arguments(input, &mut args) {
        Ok(_) => panic!("11 parameters accepted (silently truncated?)"),
        Err(ParseError::Incomplete) => panic!("11 parameters reported as Incomplete"),
        Err(_) => {}
    }
}

/// C08/C12: a later parameter whose string (or block) is still open makes the whole parameter list Incomplete — the
/// streaming caller must wait for the rest instead of reporting an error (concrete inputs, cheap).
#[kani::proof]
#[kani::unwind(8)]
#[kani::stub(core::str::from_utf8, ascii_only_from_utf8)]
fn k_arguments_open_string() {
    let input: &[u8] = b"7,'a\n";
    let mut args: Vec<Value<'_>, MAX_ARGS> = Vec::new();
    match run_arguments(input, &mut args) {
        Err(ParseError::Incomplete) => {}
        Ok(_) => panic!("parameter list with an open string accepted"),
        Err(_) => panic!("open string in the second parameter reported as an error instead of Incomplete"),
    }
}
#[kani::proof]
#[kani::unwind(8)]
#[kani::stub(core::str::from_utf8, ascii_only_from_utf8)]
fn k_arguments_open_block() {
    let input: &[u8] = b"7,#13a\n";
    let mut args: Vec<Value<'_>, MAX_ARGS> = Vec::new();
    match run_arguments(input, &mut args) {
        Err(ParseError::Incomplete) => {}
        Ok(_) => panic!("parameter list with an incomplete block accepted"),
        Err(_) => panic!("incomplete block in the second parameter reported as an error instead of Incomplete"),
    }
}

/// C05/C12: a parameter list that ends right behind a '#' is incomplete (no panic, no error)
#[kani::proof]
#[kani::unwind(4)]
#[kani::stub(core::str::from_utf8, ascii_only_from_utf8)]
fn k_arguments_lone_hash_first() {
    let input: &[u8] = b"#";
    let mut args: Vec<Value<'_>, MAX_ARGS> = Vec::new();
    match run_arguments(input, &mut args) {
        Err(ParseError::Incomplete) => {}
        Ok(_) => panic!("lone '#' accepted"),
        Err(_) => panic!("lone '#' reported as an error instead of Incomplete"),
    }
}
/// C05/C12: ... also as a later parameter
#[kani::proof]
#[kani::unwind(6)]
#[kani::stub(core::str::from_utf8, ascii_only_from_utf8)]
fn k_arguments_lone_hash_second() {
    let input: &[u8] = b"1, #";
    let mut args: Vec<Value<'_>, MAX_ARGS> = Vec::new();
    match run_arguments(input, &mut args) {
        Err(ParseError::Incomplete) => {}
        Ok(_) => panic!("'1, #' accepted"),
        Err(_) => panic!("'1, #' reported as an error instead of Incomplete"),
    }
}
