//! Kani harnesses for crate-visible items of `microscpi`.
//!
//! The runner copies this file to `microscpi/src/verif_kani.rs` and appends
//!     #[cfg(kani)] mod verif_kani;
//! to `microscpi/src/lib.rs`.
//!
//! Every harness compares the code under test with an executable ORACLE that is
//! written from the property text, not from the code under test.

use crate::tree::Node;
use crate::{Error, ErrorQueue, StaticErrorQueue, Value};

// ---------------------------------------------------------------------------
// helpers
// ---------------------------------------------------------------------------

/// A symbolic string: `N` bytes, each drawn from the (ASCII) `alphabet`, of which
/// the first `len <= N` are used.
fn any_input<const N: usize>(alphabet: &[u8]) -> ([u8; N], usize) {
    let mut buf = [0u8; N];
    let mut i = 0;
    while i < N {
        let b: u8 = kani::any();
        let mut ok = false;
        let mut k = 0;
        while k < alphabet.len() {
            if alphabet[k] == b {
                ok = true;
            }
            k += 1;
        }
        kani::assume(ok);
        buf[i] = b;
        i += 1;
    }
    let len: usize = kani::any();
    kani::assume(len <= N);
    (buf, len)
}

/// `&buf[..len]` as `&str` WITHOUT running core's utf-8 validator (its nested
/// loops are unwound `unwind^2` times by CBMC, which dominates the run time).
/// Sound: every byte is asserted to be ASCII first.
fn ascii_str(bytes: &[u8]) -> &str {
    let mut i = 0;
    while i < bytes.len() {
        assert!(bytes[i] < 128);
        i += 1;
    }
    unsafe { core::str::from_utf8_unchecked(bytes) }
}

fn same_node(a: Option<&'static Node>, b: Option<&'static Node>) -> bool {
    match (a, b) {
        (None, None) => true,
        (Some(x), Some(y)) => core::ptr::eq(x, y),
        _ => false,
    }
}

// ---------------------------------------------------------------------------
// k_child_case_insensitive  (C01, C11) -- bounded: names of length 0..=4 over an
// alphabet of 11, plus concrete spellings of a 15 character key.
// ---------------------------------------------------------------------------

static CC_N1: Node = Node { children: &[], command: Some(1), query: None };
static CC_N2: Node = Node { children: &[], command: Some(2), query: None };
static CC_N3: Node = Node { children: &[], command: Some(3), query: None };
static CC_N4: Node = Node { children: &[], command: Some(4), query: None };
static CC_ROOT: Node = Node {
    children: &[
        ("SYST", &CC_N1),
        ("SYSTEM", &CC_N2),
        ("A_1", &CC_N3),
        ("LONGMNEMONIC12X", &CC_N4),
    ],
    command: None,
    query: None,
};

fn lower(b: u8) -> u8 {
    if b >= b'A' && b <= b'Z' {
        b + 32
    }
    else {
        b
    }
}

/// First child whose key equals `name` ignoring ASCII case; the WHOLE name has to
/// match (no abbreviation / prefix matching at this level).
fn oracle_child(node: &'static Node, name: &[u8]) -> Option<&'static Node> {
    let mut c = 0;
    while c < node.children.len() {
        let key = node.children[c].0.as_bytes();
        if key.len() == name.len() {
            let mut equal = true;
            let mut i = 0;
            while i < key.len() {
                if lower(key[i]) != lower(name[i]) {
                    equal = false;
                }
                i += 1;
            }
            if equal {
                return Some(node.children[c].1);
            }
        }
        c += 1;
    }
    None
}

/// Bound: symbolic names of length <= 4; the concrete names have 15 characters,
/// so the longest loop (comparison of a 15 character key, alphabet scan of 11)
/// runs 15 times; unwind 18 (`eq_ignore_ascii_case` may add a remainder loop).
#[kani::proof]
#[kani::unwind(18)]
fn k_child_case_insensitive() {
    const ALPHABET: [u8; 11] = [
        b'S', b's', b'Y', b'y', b'T', b't', b'A', b'a', b'_', b'1', b'X',
    ];
    let (buf, len) = any_input::<4>(&ALPHABET);
    let name = ascii_str(&buf[..len]);
    assert!(same_node(
        CC_ROOT.child(name),
        oracle_child(&CC_ROOT, name.as_bytes())
    ));

    // anchor the oracle itself with the cases named in the property
    assert!(same_node(CC_ROOT.child("SYS"), None));
    assert!(same_node(CC_ROOT.child("syst"), Some(&CC_N1)));
    assert!(same_node(CC_ROOT.child("sYsT"), Some(&CC_N1)));
    assert!(same_node(CC_ROOT.child("System"), Some(&CC_N2)));
    assert!(same_node(CC_ROOT.child("a_1"), Some(&CC_N3)));
    assert!(same_node(CC_ROOT.child(""), None));

    // a key longer than 12 characters, in four spellings
    assert!(same_node(CC_ROOT.child("LONGMNEMONIC12X"), Some(&CC_N4)));
    assert!(same_node(CC_ROOT.child("longmnemonic12x"), Some(&CC_N4)));
    assert!(same_node(CC_ROOT.child("LongMnemonic12x"), Some(&CC_N4)));
    assert!(same_node(CC_ROOT.child("LONGMNEMONIC12x"), Some(&CC_N4)));
    assert!(same_node(CC_ROOT.child("longmnemonic12X"), Some(&CC_N4)));
    // ... and its 14 character prefix must not match
    assert!(same_node(CC_ROOT.child("LONGMNEMONIC12"), None));
    assert!(same_node(CC_ROOT.child("longmnemonic12"), None));
}

// ---------------------------------------------------------------------------
// k_error_queue_{1,2,3}  (C09) -- bounded: every sequence of 6 operations.
// ---------------------------------------------------------------------------

fn any_error() -> Error {
    let k: u8 = kani::any();
    kani::assume(k < 3);
    match k {
        0 => Error::SyntaxError,
        1 => Error::DataTypeError,
        _ => Error::Custom(7, "x"),
    }
}

/// FIFO model of IEEE 488.2 21.8.1: `entries[0]` is the oldest entry.
struct QueueModel {
    entries: [Option<Error>; 3],
    len: usize,
}

impl QueueModel {
    fn push(&mut self, capacity: usize, e: Error) {
        if self.len < capacity {
            self.entries[self.len] = Some(e);
            self.len += 1;
        }
        else if self.len > 0 {
            // full: the NEWEST entry becomes "queue overflow", nothing else moves
            self.entries[self.len - 1] = Some(Error::QueueOverflow);
        }
    }

    fn pop(&mut self) -> Option<Error> {
        if self.len == 0 {
            return None;
        }
        let oldest = self.entries[0];
        self.entries[0] = self.entries[1];
        self.entries[1] = self.entries[2];
        self.entries[2] = None;
        self.len -= 1;
        oldest
    }
}

const QUEUE_OPS: usize = 6;

fn error_queue_against_model<const N: usize>() {
    let mut queue: StaticErrorQueue<N> = StaticErrorQueue::new();
    let mut model = QueueModel { entries: [None; 3], len: 0 };
    assert!(queue.error_count() == 0);

    let mut step = 0;
    while step < QUEUE_OPS {
        if kani::any::<bool>() {
            let e = any_error();
            queue.push_error(e);
            model.push(N, e);
        }
        else {
            let got = queue.pop_error();
            let want = model.pop();
            assert!(got == want);
        }
        assert!(queue.error_count() == model.len);
        step += 1;
    }

    // drain: the remaining entries come out oldest first
    let mut i = 0;
    while i < 3 {
        let want = model.pop();
        let got = queue.pop_error();
        assert!(got == want);
        assert!(queue.error_count() == model.len);
        i += 1;
    }
    assert!(queue.pop_error().is_none());
    assert!(queue.error_count() == 0);
}

/// Bound: 6 operations (loop of 6, drain loop of 3); unwind 8.
/// 6 operations are enough to wrap the ring buffer before the overflow for all
/// N <= 3 (push, pop, N pushes, overflowing push = N + 3 operations).
#[kani::proof]
#[kani::unwind(8)]
fn k_error_queue_1() {
    error_queue_against_model::<1>();
}

#[kani::proof]
#[kani::unwind(8)]
fn k_error_queue_2() {
    error_queue_against_model::<2>();
}

#[kani::proof]
#[kani::unwind(8)]
fn k_error_queue_3() {
    error_queue_against_model::<3>();
}

// ---------------------------------------------------------------------------
// k_value_u8 / k_value_i8  (C03) -- bounded: strings of length 0..=3 over an
// alphabet of 10, all four numeric kinds.
// ---------------------------------------------------------------------------

fn digit_value(b: u8, radix: i32) -> Option<i32> {
    let v = if b >= b'0' && b <= b'9' {
        (b - b'0') as i32
    }
    else if b >= b'a' && b <= b'f' {
        10 + (b - b'a') as i32
    }
    else if b >= b'A' && b <= b'F' {
        10 + (b - b'A') as i32
    }
    else {
        return None;
    };
    if v < radix {
        Some(v)
    }
    else {
        None
    }
}

/// [+] (or [+-] when signed), then one or more digits of the radix; the
/// mathematical value has to lie in `min..=max`.
fn oracle_int(s: &[u8], radix: i32, signed: bool, min: i32, max: i32) -> Option<i32> {
    let mut i = 0;
    let mut negative = false;
    if !s.is_empty() && s[0] == b'+' {
        i = 1;
    }
    else if signed && !s.is_empty() && s[0] == b'-' {
        negative = true;
        i = 1;
    }
    if i >= s.len() {
        return None; // empty, or a lone sign
    }
    let mut acc: i32 = 0;
    while i < s.len() {
        match digit_value(s[i], radix) {
            Some(d) => acc = acc * radix + d, // <= 3 digits of radix <= 16: no overflow
            None => return None,
        }
        i += 1;
    }
    if negative {
        acc = -acc;
    }
    if acc < min || acc > max {
        None
    }
    else {
        Some(acc)
    }
}

const INT_ALPHABET: [u8; 10] = [b'+', b'-', b'0', b'1', b'2', b'5', b'9', b'A', b'F', b'a'];
const RADIX: [i32; 4] = [10, 16, 2, 8];

fn numeric_value(kind: usize, s: &str) -> Value<'_> {
    match kind {
        0 => Value::Decimal(s),
        1 => Value::Hexadecimal(s),
        2 => Value::Binary(s),
        _ => Value::Octal(s),
    }
}

fn non_numeric_value(kind: usize, s: &str) -> Value<'_> {
    match kind {
        0 => Value::String(s),
        1 => Value::Characters(s),
        _ => Value::Arbitrary(s.as_bytes()),
    }
}

/// Bound: length <= 3; loops: alphabet scan 10, string loops 3; unwind 12.
#[kani::proof]
#[kani::unwind(12)]
fn k_value_u8() {
    let (buf, len) = any_input::<3>(&INT_ALPHABET);
    let s = ascii_str(&buf[..len]);

    let mut kind = 0;
    while kind < 4 {
        let got: Result<u8, Error> = (&numeric_value(kind, s)).try_into();
        match oracle_int(s.as_bytes(), RADIX[kind], false, 0, 255) {
            Some(v) => assert!(got == Ok(v as u8)),
            None => assert!(got == Err(Error::NumericDataError)),
        }
        kind += 1;
    }

    let mut kind = 0;
    while kind < 3 {
        let got: Result<u8, Error> = (&non_numeric_value(kind, s)).try_into();
        assert!(got == Err(Error::DataTypeError));
        kind += 1;
    }
}

#[kani::proof]
#[kani::unwind(12)]
fn k_value_i8() {
    let (buf, len) = any_input::<3>(&INT_ALPHABET);
    let s = ascii_str(&buf[..len]);

    let mut kind = 0;
    while kind < 4 {
        let got: Result<i8, Error> = (&numeric_value(kind, s)).try_into();
        match oracle_int(s.as_bytes(), RADIX[kind], true, -128, 127) {
            Some(v) => assert!(got == Ok(v as i8)),
            None => assert!(got == Err(Error::NumericDataError)),
        }
        kind += 1;
    }

    let mut kind = 0;
    while kind < 3 {
        let got: Result<i8, Error> = (&non_numeric_value(kind, s)).try_into();
        assert!(got == Err(Error::DataTypeError));
        kind += 1;
    }
}

// ---------------------------------------------------------------------------
// k_value_bool  (C03) -- the 10 accepted spellings concretely, plus every
// 0..=2 character Characters / Decimal / other value over an alphabet of 7.
// ---------------------------------------------------------------------------

fn to_bool(v: Value<'_>) -> Result<bool, Error> {
    (&v).try_into()
}

/// The accepted set, restricted to what fits in two characters.
fn oracle_bool_short(kind: usize, s: &[u8]) -> Option<bool> {
    match kind {
        // Characters
        0 => {
            if s.len() == 2 && (s[0] == b'O' && s[1] == b'N' || s[0] == b'o' && s[1] == b'n') {
                Some(true)
            }
            else {
                None // "OFF", "TRUE", "FALSE" need more than two characters
            }
        }
        // Decimal
        1 => {
            if s.len() == 1 && s[0] == b'1' {
                Some(true)
            }
            else if s.len() == 1 && s[0] == b'0' {
                Some(false)
            }
            else {
                None
            }
        }
        _ => None,
    }
}

/// Bound: symbolic part length <= 2 (alphabet scan 7, string compares <= 5);
/// unwind 9.
#[kani::proof]
#[kani::unwind(9)]
fn k_value_bool() {
    assert!(to_bool(Value::Characters("ON")) == Ok(true));
    assert!(to_bool(Value::Characters("on")) == Ok(true));
    assert!(to_bool(Value::Characters("TRUE")) == Ok(true));
    assert!(to_bool(Value::Characters("true")) == Ok(true));
    assert!(to_bool(Value::Decimal("1")) == Ok(true));
    assert!(to_bool(Value::Characters("OFF")) == Ok(false));
    assert!(to_bool(Value::Characters("off")) == Ok(false));
    assert!(to_bool(Value::Characters("FALSE")) == Ok(false));
    assert!(to_bool(Value::Characters("false")) == Ok(false));
    assert!(to_bool(Value::Decimal("0")) == Ok(false));

    const ALPHABET: [u8; 7] = [b'O', b'N', b'n', b'o', b'0', b'1', b'F'];
    let (buf, len) = any_input::<2>(&ALPHABET);
    let s = ascii_str(&buf[..len]);
    let kind: usize = kani::any();
    kani::assume(kind < 7);
    let value = match kind {
        0 => Value::Characters(s),
        1 => Value::Decimal(s),
        2 => Value::String(s),
        3 => Value::Hexadecimal(s),
        4 => Value::Binary(s),
        5 => Value::Octal(s),
        _ => Value::Arbitrary(s.as_bytes()),
    };
    match oracle_bool_short(kind, s.as_bytes()) {
        Some(b) => assert!(to_bool(value) == Ok(b)),
        None => assert!(to_bool(value) == Err(Error::IllegalParameterValue)),
    }
}

// ---------------------------------------------------------------------------
// k_value_bounds_narrow (C03) -- concrete literals at and just beyond the bounds of the
// signed and unsigned types, in decimal and hexadecimal notation.
// ---------------------------------------------------------------------------
#[kani::proof]
#[kani::unwind(24)]
fn k_value_bounds_narrow() {
    let r: Result<i8, Error> = (&Value::Decimal("-128")).try_into();   assert!(r == Ok(i8::MIN));
    let r: Result<i8, Error> = (&Value::Decimal("-129")).try_into();   assert!(r == Err(Error::NumericDataError));
    let r: Result<i8, Error> = (&Value::Decimal("127")).try_into();    assert!(r == Ok(i8::MAX));
    let r: Result<i8, Error> = (&Value::Decimal("128")).try_into();    assert!(r == Err(Error::NumericDataError));
    let r: Result<i8, Error> = (&Value::Hexadecimal("80")).try_into(); assert!(r == Err(Error::NumericDataError));
    let r: Result<u8, Error> = (&Value::Decimal("255")).try_into();    assert!(r == Ok(u8::MAX));
    let r: Result<u8, Error> = (&Value::Decimal("256")).try_into();    assert!(r == Err(Error::NumericDataError));
    let r: Result<u8, Error> = (&Value::Decimal("-0")).try_into();     assert!(r == Err(Error::NumericDataError));
    let r: Result<i16, Error> = (&Value::Decimal("-32768")).try_into(); assert!(r == Ok(i16::MIN));
    let r: Result<i16, Error> = (&Value::Decimal("-32769")).try_into(); assert!(r == Err(Error::NumericDataError));
    let r: Result<i16, Error> = (&Value::Decimal("32768")).try_into();  assert!(r == Err(Error::NumericDataError));
    let r: Result<u16, Error> = (&Value::Hexadecimal("FFFF")).try_into(); assert!(r == Ok(u16::MAX));
    let r: Result<u16, Error> = (&Value::Hexadecimal("10000")).try_into(); assert!(r == Err(Error::NumericDataError));
}
#[kani::proof]
#[kani::unwind(24)]
fn k_value_bounds_wide() {
    let r: Result<i32, Error> = (&Value::Decimal("-2147483648")).try_into(); assert!(r == Ok(i32::MIN));
    let r: Result<i32, Error> = (&Value::Decimal("2147483648")).try_into();  assert!(r == Err(Error::NumericDataError));
    let r: Result<i64, Error> = (&Value::Decimal("-9223372036854775808")).try_into(); assert!(r == Ok(i64::MIN));
    let r: Result<i64, Error> = (&Value::Decimal("9223372036854775808")).try_into();  assert!(r == Err(Error::NumericDataError));
    let r: Result<u64, Error> = (&Value::Decimal("18446744073709551615")).try_into(); assert!(r == Ok(u64::MAX));
    let r: Result<u64, Error> = (&Value::Decimal("18446744073709551616")).try_into(); assert!(r == Err(Error::NumericDataError));
}
