//! vx-replay: runs a recorded input against the REAL crate (/repo working tree) and prints what happened.
//! usage: vx-replay <mode> <n> <resp_cap> <hex chunk> [<hex chunk> ...]
//!   mode = run       : the chunks are concatenated and given to Interface::run with a std Vec writer
//!   mode = process   : each chunk is one Adapter::read result (split further if the buffer is smaller); N = n
//! prints one JSON object: {"calls": [...], "errors": [...], "writes": ["hex", ...], "out": "hex", "returned": "..."}
use core::future::Future;
use core::pin::pin;
use core::task::{Context, Poll, RawWaker, RawWakerVTable, Waker};
use microscpi::{self as scpi, Adapter, Error, ErrorHandler, Interface};

fn block_on<F: Future>(f: F) -> F::Output {
    fn noop(_: *const ()) {}
    fn clone(_: *const ()) -> RawWaker { RawWaker::new(core::ptr::null(), &VT) }
    static VT: RawWakerVTable = RawWakerVTable::new(clone, noop, noop, noop);
    let waker = unsafe { Waker::from_raw(RawWaker::new(core::ptr::null(), &VT)) };
    let mut cx = Context::from_waker(&waker);
    let mut f = pin!(f);
    loop {
        if let Poll::Ready(v) = f.as_mut().poll(&mut cx) { return v; }
    }
}

#[derive(Default)]
pub struct T1 { calls: Vec<String>, errors: Vec<i16> }

impl ErrorHandler for T1 {
    fn handle_error(&mut self, error: Error) { self.errors.push(error.number()); }
}

#[scpi::interface]
impl T1 {
    #[scpi(cmd = "A:B")]
    fn a_b(&mut self) -> Result<(), Error> { self.calls.push("A:B".into()); Ok(()) }
    #[scpi(cmd = "B")]
    fn b(&mut self) -> Result<(), Error> { self.calls.push("B".into()); Ok(()) }
    #[scpi(cmd = "C")]
    fn c(&mut self) -> Result<(), Error> { self.calls.push("C".into()); Ok(()) }
    #[scpi(cmd = "A:S")]
    fn a_s(&mut self, s: &str) -> Result<(), Error> { self.calls.push(format!("A:S({s:?})")); Ok(()) }
    #[scpi(cmd = "S")]
    fn s(&mut self, s: &str) -> Result<(), Error> { self.calls.push(format!("S({s:?})")); Ok(()) }
    #[scpi(cmd = "Q?")]
    fn q(&mut self) -> Result<&'static str, Error> { self.calls.push("Q?".into()); Ok("he said \"hi\"") }
    #[scpi(cmd = "*IDN?")]
    fn idn(&mut self) -> Result<&'static str, Error> { self.calls.push("*IDN?".into()); Ok("verif,replay,0,0.0.1") }
    #[scpi(cmd = "FAIL")]
    fn fail(&mut self) -> Result<(), Error> { self.calls.push("FAIL".into()); Err(Error::Custom(42, "custom")) }
    #[scpi(cmd = "N:U8")]
    fn n_u8(&mut self, v: u8) -> Result<(), Error> { self.calls.push(format!("N:U8({v})")); Ok(()) }
}

struct Chunks { chunks: Vec<Vec<u8>>, next: usize, pos: usize, writes: Vec<Vec<u8>>, flushes: usize }
impl Adapter for Chunks {
    type Error = &'static str;
    async fn read(&mut self, dst: &mut [u8]) -> Result<usize, Self::Error> {
        if self.next >= self.chunks.len() { return Err("end of input"); }
        let c = &self.chunks[self.next];
        let n = core::cmp::min(dst.len(), c.len() - self.pos);
        dst[..n].copy_from_slice(&c[self.pos..self.pos + n]);
        self.pos += n;
        if self.pos >= c.len() { self.next += 1; self.pos = 0; }
        Ok(n)
    }
    async fn write(&mut self, src: &[u8]) -> Result<(), Self::Error> { self.writes.push(src.to_vec()); Ok(()) }
    async fn flush(&mut self) -> Result<(), Self::Error> { self.flushes += 1; Ok(()) }
}

fn unhex(s: &str) -> Vec<u8> { (0..s.len() / 2).map(|i| u8::from_str_radix(&s[2 * i..2 * i + 2], 16).unwrap()).collect() }
fn hex(b: &[u8]) -> String { b.iter().map(|x| format!("{x:02x}")).collect() }

macro_rules! proc_n { ($t:expr, $a:expr, $n:expr, [$($k:literal),*]) => { match $n { $($k => block_on($t.process::<$k, _>($a)),)* _ => panic!("unsupported N") } } }

fn main() {
    let a: Vec<String> = std::env::args().collect();
    let mode = a[1].as_str();
    let n: usize = a[2].parse().unwrap();
    let chunks: Vec<Vec<u8>> = a[4..].iter().map(|s| unhex(s)).collect();
    let mut t = T1::default();
    let (out, writes, returned): (Vec<u8>, Vec<Vec<u8>>, String) = match mode {
        "run" => {
            let input: Vec<u8> = chunks.concat();
            let mut out = Vec::new();
            let rest = block_on(t.run(&input, &mut out)).to_vec();
            (out, vec![], format!("rest={}", hex(&rest)))
        }
        "process" => {
            let mut ad = Chunks { chunks, next: 0, pos: 0, writes: vec![], flushes: 0 };
            let r = proc_n!(t, &mut ad, n, [1, 2, 3, 4, 5, 6, 7, 8, 12, 16, 24, 32, 64, 128]);
            (ad.writes.concat(), ad.writes.clone(), format!("{r:?} flushes={}", ad.flushes))
        }
        _ => panic!("mode"),
    };
    let q = |v: &Vec<String>| v.iter().map(|s| format!("{:?}", s)).collect::<Vec<_>>().join(",");
    println!("{{\"calls\":[{}],\"errors\":{:?},\"writes\":[{}],\"out\":\"{}\",\"returned\":{:?}}}",
        q(&t.calls), t.errors, writes.iter().map(|w| format!("\"{}\"", hex(w))).collect::<Vec<_>>().join(","), hex(&out), returned);
}
