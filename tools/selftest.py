#!/usr/bin/env python3
"""Own mutation self-test (development aid, complements the independently seeded changes in /verif/seeded):
small textual mutations of /repo applied to scratch copies; each must make the owning check exit 1.
The mutations are not checked against the test suite here. Writes selftest/RESULTS.md."""
import os, sys, subprocess, shutil, concurrent.futures, json
V = os.path.dirname(os.path.dirname(os.path.abspath(__file__)))
M = [
 ("child-prefix-len", "C01", "microscpi/src/tree.rs", "if child.0.eq_ignore_ascii_case(name) {", "if child.0.len() >= name.len() && child.0.as_bytes()[0].eq_ignore_ascii_case(&name.as_bytes()[0]) {"),
 ("execute-swapped-slots", "C01", "microscpi/src/interface.rs", "            call.node.query\n        }\n        else {\n            call.node.command", "            call.node.command\n        }\n        else {\n            call.node.query"),
 ("no-root-reset-on-terminator", "C02", "microscpi/src/interface.rs", "                if call.terminated {\n", "                if call.terminated && call.query {\n"),
 ("common-command-resets-path", "C02", "microscpi/src/parser.rs", "        Ok((i2, (node, None)))", "        Ok((i2, (node, Some(root))))"),
 ("hex-keeps-prefix", "C03", "microscpi/src/parser.rs", "    let res = str::from_utf8(&i2[..i2.len() - i4.len()])?;\n    Ok((i4, Value::Hexadecimal(res)))", "    let res = str::from_utf8(&i1[..i1.len() - i4.len()])?;\n    Ok((i4, Value::Hexadecimal(res)))"),
 ("octal-as-decimal", "C03", "microscpi/src/value.rs", "<$type>::from_str_radix(data, 8)", "<$type>::from_str_radix(data, 10)"),
 ("bool-yes", "C03", "microscpi/src/value.rs", "| Value::Decimal(\"1\") => Ok(true),", "| Value::Decimal(\"1\") | Value::Characters(\"YES\") => Ok(true),"),
 ("nan-sentinel", "C04", "microscpi/src/response.rs", "impl Response for f32 {\n    async fn write_response(&self, f: &mut impl Write) -> Result<(), Error> {\n        if self.is_nan() {\n            f.write_str(\"9.91E+37\").await", "impl Response for f32 {\n    async fn write_response(&self, f: &mut impl Write) -> Result<(), Error> {\n        if self.is_nan() {\n            f.write_str(\"9.9E+37\").await"),
 ("newline-for-commands", "C04", "microscpi/src/interface.rs", "            if call.query {\n                response.write_char", "            if call.query || true {\n                response.write_char"),
 ("tuple-separator", "C04", "microscpi/src/response.rs", "        self.0.write_response(f).await?;\n        f.write_char(',').await?;\n        self.1.write_response(f).await\n", "        self.0.write_response(f).await?;\n        f.write_char(';').await?;\n        self.1.write_response(f).await\n"),
 ("block-off-by-one", "C05", "microscpi/src/parser.rs", "    if i3.len() < count {", "    if i3.len() + 1 < count {"),
 ("process-slice", "C05", "microscpi/src/interface.rs", "let data = &cmd_buf[proc_offset..=terminator_pos];", "let data = &cmd_buf[proc_offset..=terminator_pos + 1];"),
 ("error-reported-twice", "C06", "microscpi/src/interface.rs", "                    self.handle_error(error);\n                }\n", "                    self.handle_error(error);\n                    self.handle_error(error);\n                }\n"),
 ("resync-keeps-path", "C06", "microscpi/src/interface.rs", "                        input = &input[position + 1..];\n                        header = self.root_node();", "                        input = &input[position + 1..];"),
 ("overflow-check-lt", "C07", "microscpi/src/interface.rs", "if read_offset >= cmd_buf.len() {", "if read_offset + 1 >= cmd_buf.len() {"),
 ("scan-from-proc", "C07", "microscpi/src/interface.rs", "                    read_offset = terminator_pos + 1;\n                }\n                else {", "                    read_offset = terminator_pos;\n                }\n                else {"),
 ("string-stops-at-semicolon", "C08", "microscpi/src/parser.rs", "    let (i2, res) = take_while(|c| c != b'\"')(i1)?;", "    let (i2, res) = take_while(|c| c != b'\"' && c != b';')(i1)?;"),
 ("incomplete-as-error", "C08", "microscpi/src/parser.rs", "        ParseError::Incomplete => Err(error),\n        _ => parser(input),", "        _ => parser(input),"),
 ("queue-overwrites-oldest", "C09", "microscpi/src/error_queue.rs", "            if let Some(value) = self.0.back_mut() {", "            if let Some(value) = self.0.front_mut() {"),
 ("count-plus-one", "C09", "microscpi/src/commands.rs", "Ok(self.error_queue().error_count())", "Ok(self.error_queue().error_count() + 1)"),
 ("flush-before-write", "C10", "microscpi/src/interface.rs", "                    adapter.write(&res_buf).await?;\n                    adapter.flush().await?;", "                    adapter.flush().await?;\n                    adapter.write(&res_buf).await?;"),
 ("swallow-write-error", "C10", "microscpi/src/interface.rs", "                    adapter.write(&res_buf).await?;", "                    let _ = adapter.write(&res_buf).await;"),
 ("ws-class-includes-newline", "C11", "microscpi/src/parser.rs", "matches!(input, 0u8..=9u8 | 11u8..=32u8)", "matches!(input, 0u8..=32u8)"),
 ("case-sensitive-child", "C11", "microscpi/src/tree.rs", "child.0.eq_ignore_ascii_case(name)", "child.0 == name"),
 ("terminator-optional", "C12", "microscpi/src/parser.rs", "        .or_else(|_| tag(b';')(input).map(|(i, _)| (i, false)))?;", "        .or_else(|_| tag(b';')(input).map(|(i, _)| (i, false))).unwrap_or((input, true));"),
 ("is-complete-ignores-incomplete", "C08", "microscpi/src/parser.rs", "            Err(ParseError::Incomplete) => return false,\n            Err(_) => return true,", "            Err(_) => return true,"),
 ("process-without-complete-check", "C08", "microscpi/src/interface.rs", "                if !parser::is_complete(self.root_node(), data) {", "                if false && !parser::is_complete(self.root_node(), data) {"),
 ("is-complete-forgets-path", "C08", "microscpi/src/parser.rs", "                if let Some(call_header) = call.header {\n                    header = call_header;\n                }\n                input = rest;", "                input = rest;"),
 ("f32-lazy-wrong-error", "C03", "microscpi/src/value.rs", "    fn try_into(self) -> Result<f32, Self::Error> {\n        match self {\n            Value::Decimal(data) => data.parse().or(Err(Error::NumericDataError)),", "    fn try_into(self) -> Result<f32, Self::Error> {\n        match self {\n            Value::Decimal(data) => data.parse().map_err(|_| Error::DataTypeError),"),
 ("block-digits-helper-off-by-one", "C04", "microscpi/src/response.rs", "impl Response for Arbitrary<'_> {\n    async fn write_response(&self, f: &mut impl Write) -> Result<(), Error> {\n        let len = self.0.len();\n        if len > 0 {\n            let len_digits = len.ilog10() + 1;", "fn decimal_digits(len: usize) -> u32 {\n    len.ilog10()\n}\n\nimpl Response for Arbitrary<'_> {\n    async fn write_response(&self, f: &mut impl Write) -> Result<(), Error> {\n        let len = self.0.len();\n        if len > 0 {\n            let len_digits = decimal_digits(len);"),
 ("empty-unit-consumes-nothing", "C12", "microscpi/src/parser.rs", "    if _terminator.is_some() {\n        return Ok((input, None));", "    if _terminator.is_some() {\n        return Ok((&input[..0], None));"),
]
REFACTORS = [
 ("digits-commuted-add", "C03", "microscpi/src/parser.rs", "    Ok((i2, &input[..res.len() + 1]))\n}\n\n/// Parses a program mnemonic", "    Ok((i2, &input[..1 + res.len()]))\n}\n\n/// Parses a program mnemonic"),
 ("execute-negated-branch", "C01", "microscpi/src/interface.rs", "        let command = if call.query {\n            call.node.query\n        }\n        else {\n            call.node.command\n        };", "        let command = if !call.query {\n            call.node.command\n        }\n        else {\n            call.node.query\n        };"),
 ("push-error-if-let", "C09", "microscpi/src/error_queue.rs", "        if self.0.push_back(error).is_err() {", "        if let Err(_rejected) = self.0.push_back(error) {"),
 ("f32-map-err-closure", "C03", "microscpi/src/value.rs", "    fn try_into(self) -> Result<f32, Self::Error> {\n        match self {\n            Value::Decimal(data) => data.parse().or(Err(Error::NumericDataError)),", "    fn try_into(self) -> Result<f32, Self::Error> {\n        match self {\n            Value::Decimal(data) => data.parse().map_err(|_| Error::NumericDataError),"),
 ("block-digits-helper", "C04", "microscpi/src/response.rs", "impl Response for Arbitrary<'_> {\n    async fn write_response(&self, f: &mut impl Write) -> Result<(), Error> {\n        let len = self.0.len();\n        if len > 0 {\n            let len_digits = len.ilog10() + 1;", "fn decimal_digits(len: usize) -> u32 {\n    len.ilog10() + 1\n}\n\nimpl Response for Arbitrary<'_> {\n    async fn write_response(&self, f: &mut impl Write) -> Result<(), Error> {\n        let len = self.0.len();\n        if len > 0 {\n            let len_digits = decimal_digits(len);"),
 ("process-comment-and-blank-lines", "C07", "microscpi/src/interface.rs", "            read_offset = read_end;\n", "            // all terminators of this read are handled\n\n            read_offset = read_end;\n"),
]

def run(kind, name, prop, f, old, new):
    w = f"/tmp/st_{name}"
    shutil.rmtree(w, ignore_errors=True); os.makedirs(w + "/repo")
    subprocess.run(f"git -C /repo archive HEAD | tar -x -C {w}/repo", shell=True, check=True)
    p = os.path.join(w, "repo", f); s = open(p).read()
    if s.count(old) != 1:
        shutil.rmtree(w, ignore_errors=True)
        return kind, name, prop, "mutation text not found exactly once", ""
    open(p, "w").write(s.replace(old, new))
    env = dict(os.environ, VX_REPO=w + "/repo", VX_BUILD=w + "/build", VX_EVIDENCE_DIR=w + "/ev", VX_NO_KANI="1")
    r = subprocess.run([os.path.join(V, "vx"), "check", prop], capture_output=True, text=True, env=env, cwd=V)
    obl = ""
    for l in r.stdout.splitlines():
        if l.startswith("VIOLATION"):
            try: obl = json.load(open(l.split("replay=")[1].split()[0]))["obligation"][:150]
            except Exception: pass
            break
        if l.startswith("TOOL") and not obl: obl = l[:150]
    shutil.rmtree(w, ignore_errors=True)
    return kind, name, prop, {0: "exit 0", 1: "exit 1 VIOLATION", 2: "exit 2 tool failure"}.get(r.returncode, str(r.returncode)), obl

jobs = [("mutant",) + m for m in M] + [("refactor",) + m for m in REFACTORS]
rows = []
with concurrent.futures.ThreadPoolExecutor(max_workers=4) as ex:
    for res in ex.map(lambda j: run(*j), jobs):
        print(*res[:4], flush=True); rows.append(res)
out = ["# Self-test: own mutations (must be caught: exit 1) and harmless refactors (must stay exit 0)", "",
       "Kani fallback disabled (VX_NO_KANI=1): this table shows what the deductive checks alone decide.", "",
       "| kind | name | property | result | first failed obligation / tool message |", "|---|---|---|---|---|"]
for k, n, p, r, o in rows:
    out.append(f"| {k} | {n} | {p} | {r} | {o.replace('|', '/')} |")
open(os.path.join(V, "selftest", "RESULTS.md"), "w").write("\n".join(out) + "\n")
