#!/bin/bash
# usage: tools/confirm_seed.sh <seed_src_dir> <seed_id>     e.g. /tmp/seed_out/C10/1 C10-1
# Confirms in a scratch worktree of /repo HEAD: demo passes without the change; with the change the full suite passes
# and the demo fails. On success copies patch.diff, demo.rs, meta.json (+ confirmation record) to /verif/seeded/<id>/.
src=$1; id=$2
wt=/tmp/cs_$id
out=/tmp/cs_out_$id.txt
rm -rf $wt; git -C /repo worktree add --detach $wt HEAD -q 2>/dev/null || { echo "$id: worktree failed"; exit 9; }
cleanup() { git -C /repo worktree remove --force $wt 2>/dev/null; rm -rf $wt; }
trap cleanup EXIT
cd $wt
export CARGO_NET_OFFLINE=true
demo_name=seed_demo
cp $src/demo.rs microscpi/tests/$demo_name.rs
r1=$(cargo test --offline -p microscpi --features std --test $demo_name 2>&1 | grep -E "^test result|error(\[|:)" | head -3)
echo "$r1" | grep -q "test result: ok" || { echo "$id: REJECT demo does not pass on unmodified HEAD: $r1"; exit 1; }
if ! git apply --check $src/patch.diff 2>/dev/null; then echo "$id: REJECT patch does not apply to HEAD"; exit 2; fi
git apply $src/patch.diff
r3=$(cargo test --offline -p microscpi --features std --test $demo_name 2>&1 | grep -E "^test result|error(\[|:)" | head -3)
echo "$r3" | grep -q "FAILED\|failed" || { echo "$id: REJECT demo does not fail with the change: $r3"; exit 3; }
rm microscpi/tests/$demo_name.rs
r2=$(cargo test --workspace --no-fail-fast --offline 2>&1 | grep -E "^test result" | tr '\n' ' ')
npass=$(echo "$r2" | grep -o "[0-9]* passed" | awk '{s+=$1} END {print s}')
echo "$r2" | grep -q "FAILED\|[1-9][0-9]* failed" && { echo "$id: REJECT suite fails with the change: $r2"; exit 4; }
mkdir -p /verif/seeded/$id
cp $src/patch.diff $src/demo.rs /verif/seeded/$id/
python3 - "$src/meta.json" "/verif/seeded/$id/meta.json" "$id" "$r1" "$r3" "$r2" "$(git -C /repo log --format=%h -1)" <<'PY'
import json,sys
src,dst,sid,r1,r3,r2,head=sys.argv[1:8]
m=json.load(open(src))
m["seed_id"]=sid
m["confirmed"]={"base_commit":head,"where":"scratch git worktree of /repo HEAD under /tmp (removed afterwards)",
 "ran":[f"cargo test --offline -p microscpi --features std --test seed_demo  (unmodified): {r1.strip()}",
        f"git apply patch.diff; cargo test --offline -p microscpi --features std --test seed_demo: {r3.strip()}",
        f"cargo test --workspace --no-fail-fast --offline (with the change, demo removed): {r2.strip()}"]}
json.dump(m,open(dst,"w"),indent=1)
PY
echo "$id: CONFIRMED (suite with change: $npass passed)"
