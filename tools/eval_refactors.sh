#!/bin/bash
# usage: tools/eval_refactors.sh [-j N] [-f id-regex] [-o out.md]   — every behaviour-preserving refactoring in /verif/refactors (produced by independent
# sub-agents, suite re-run here) against the checks of the properties its files matter for, on scratch copies of /repo HEAD.
# Expected: never exit 1 (alarm). exit 2 (contract can no longer be woven) is tolerated and counted. Writes refactors/RESULTS.md.
V=$(cd "$(dirname "$0")/.." && pwd); J=4; FILTER="^[RST][0-9]"; OUT=$V/refactors/RESULTS.md
while [ $# -gt 0 ]; do case $1 in -j) J=$2; shift 2;; -f) FILTER=$2; shift 2;; -o) OUT=$2; shift 2;; *) shift;; esac; done
one() {
  id=$1; props=$2; w=/tmp/er_$id; rm -rf $w; mkdir -p $w/repo
  git -C /repo archive HEAD | tar -x -C $w/repo
  ( cd $w/repo && git apply $V/refactors/$id/patch.diff ) || { echo "| $id | patch does not apply | |"; rm -rf $w; return; }
  t=$(cd $w/repo && CARGO_NET_OFFLINE=true cargo test --workspace --no-fail-fast --offline --target-dir $w/tt 2>&1 | grep -E "^test result" | tr '\n' ' ')
  np=$(echo "$t" | grep -o "[0-9]* passed" | awk '{s+=$1} END {print s}'); nf=$(echo "$t" | grep -o "[0-9]* failed" | awk '{s+=$1} END {print s+0}')
  rm -rf $w/tt; line=""; why=""
  for p in $props; do
    VX_REPO=$w/repo VX_BUILD=$w/build VX_EVIDENCE_DIR=$w/ev VX_NO_KANI=1 $V/vx check $p > $w/out_$p.txt 2>&1; rc=$?
    line="$line $p=exit$rc"
    [ $rc -ne 0 ] && [ -z "$why" ] && why=$(grep -E "^(VIOLATION|TOOL)" $w/out_$p.txt | head -1 | cut -c1-160 | tr '|' '/')
  done
  echo "| $id | suite ${np} passed / ${nf} failed |$line | $why |"
  rm -rf $w
}
export -f one; export V
props_for() { case $1 in R1-*|S1-*|T1-*) echo "C03 C08 C11 C12";; R2-*|S2-*|T2-*) echo "C01 C02 C07 C10";; R3-*|S3-*|T3-*) echo "C03 C04 C09";; R4-*|S4-*) echo "C01 C09";; T4-*) echo "C03 C04 C07 C11";; esac; }
{ echo "# Behaviour-preserving refactorings vs. the registered checks"; echo; echo "| refactoring | test suite with it | checks (quick tier, Kani off) | first tool message |"; echo "|---|---|---|---|";
  for d in $(ls $V/refactors | grep -E "$FILTER"); do echo "$d $(props_for $d)"; done | xargs -P $J -L 1 bash -c 'one "$0" "${*:1}"' | sort; } > $OUT
cat $OUT
