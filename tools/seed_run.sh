#!/bin/bash
# usage: tools/seed_run.sh <seed-id> <prop> [vx check args...]   — run a check against a scratch copy of /repo HEAD + the seeded change
id=$1; prop=$2; shift 2
w=/tmp/sr_$id; rm -rf $w; mkdir -p $w/repo
git -C /repo archive HEAD | tar -x -C $w/repo
( cd $w/repo && git apply /verif/seeded/$id/patch.diff ) || { echo "patch does not apply"; rm -rf $w; exit 9; }
VX_REPO=$w/repo VX_BUILD=$w/build VX_EVIDENCE_DIR=$w/evidence /verif/vx check $prop "$@"; rc=$?
[ -n "$KEEP" ] || rm -rf $w
exit $rc
