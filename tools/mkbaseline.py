#!/usr/bin/env python3
"""Record, for every function under contract, how many closures and loops its text has on the tree the contracts were
written for (contracts/shape_baseline.json). A function that later has MORE closures or loops than that contains a
construct for which the template has no contract (an exec closure without `ensures`, a loop without invariant): Verus
then knows nothing about it, and an obligation of that function that fails is undecided, not a violation."""
import os, sys, json
V = os.path.dirname(os.path.dirname(os.path.abspath(__file__)))
sys.path.insert(0, V)
from vxlib.unit import build_unit
out = {}
for f in sorted(os.listdir(os.path.join(V, "units"))):
    if not f.endswith(".vrs"):
        continue
    u = f[:-4]
    g = build_unit(os.path.join(V, "units", f), os.environ.get("VX_REPO", "/repo"), canary=False, verif_root=V, findings=False)
    for it in g.items:
        if "n_closures" in it:
            out[f"{u}:{it['name']}"] = {"closures": it["n_closures"], "loops": it["n_loops"]}
json.dump(out, open(os.path.join(V, "contracts", "shape_baseline.json"), "w"), indent=1, sort_keys=True)
print(len(out), "functions")
