#!/usr/bin/env python3
"""Regenerate /verif/MANIFEST.json from contracts/props.json (single source of truth for claimed properties)."""
import json, os
V = os.path.dirname(os.path.dirname(os.path.abspath(__file__)))
cfg = json.load(open(os.path.join(V, "contracts", "props.json")))
checks = []
for pid in sorted(cfg["properties"]):
    pc = cfg["properties"][pid]
    checks.append({
        "property_id": pid,
        "quick_cmd": f"./vx check {pid} --tier quick",
        "thorough_cmd": f"./vx check {pid} --tier thorough",
        "evidence_file": f"/verif/evidence/{pid}.json",
        "replay_cmd_template": "./vx replay {path}",
        "engine": "vx",
        "level_claimed": {"category": "proof", "text": pc["level_text"], "design_ref": f"DESIGN.md section 4 {pid}"},
        "level_note": pc["level_note"],
        "technique": pc.get("technique", "contract-based deductive verification (Verus) of mechanically extracted real code"),
    })
man = {
    "version": 1,
    "setup_cmd": "true",
    "hooks": cfg["hooks"],
    "engines": [{"name": "vx", "path": "/verif/vx", "serves_properties": sorted(cfg["properties"]),
                 "kind_free_text": "extracts the real functions from /repo's working tree, applies logged rewrite rules, weaves contracts from /verif/units/*.vrs and discharges every obligation with Verus (single-file mode); a bounded differential replay of the real crate against an executable transcription of the spec (xcheck) supplies failing inputs and, like the Kani/CBMC harnesses, serves only as a labelled bounded stand-in"}],
    "checks": checks,
    "not_applicable": cfg["not_applicable"],
    "notes": cfg.get("notes", ""),
}
json.dump(man, open(os.path.join(V, "MANIFEST.json"), "w"), indent=1)
print("MANIFEST.json:", len(checks), "checks;", len(cfg["not_applicable"]), "not applicable")
