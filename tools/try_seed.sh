#!/bin/bash
# usage: tools/try_seed.sh <patch.diff> <prop> [<prop>...]   — apply to /repo, run checks, always undo
patch=$1; shift
cd /repo || exit 9
if ! git apply --check "$patch" 2>/dev/null; then echo "PATCH DOES NOT APPLY: $patch"; exit 8; fi
git apply "$patch"
trap 'git -C /repo checkout -- . ; git -C /repo status --short | head -3' EXIT
cd /verif
for p in "$@"; do ./vx check $p 2>&1 | grep -v "^NOTE" | cut -c1-240; done
