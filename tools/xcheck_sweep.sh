#!/bin/bash
# usage: tools/xcheck_sweep.sh [-j N]   — the replay family of each seeded change's property, alone, against that change
# (scratch copies; ~15 min for all seeds at -j 8). A regression guard for the replay pools: every seed should keep a
# non-zero mismatch count in its own family (a few are visible to the deductive pass only; they are listed at the end).
V=$(cd "$(dirname "$0")/.." && pwd); J=8; [ "$1" = "-j" ] && J=$2
one() {
  id=$1; p=${id%%-*}
  declare -A F=([C01]=headers [C02]=compound [C03]=args [C04]=responses [C05]=robust [C06]=faulty [C07]=chunking [C08]=containers [C09]=queue [C10]=transport [C11]=lexical [C12]=finality)
  out=$($V/tools/xcheck_seed.sh $id ${F[$p]} 2>&1 | tail -1)
  echo "$id ${F[$p]} $(echo "$out" | grep -o '"mismatches":[0-9]*,"kinds":\[[^]]*\]' || echo "$out" | cut -c1-160)"
}
export -f one; export V
ls $V/seeded | grep "^C" | xargs -P $J -n 1 bash -c 'one "$0"' | sort | tee /tmp/xcheck_sweep.log | grep -c . 
echo "--- seeds without a disagreement in their own family:"; grep '"mismatches":0' /tmp/xcheck_sweep.log; grep -v '"mismatches"' /tmp/xcheck_sweep.log
