#!/usr/bin/env python3
import json, sys, glob
import jsonschema
jsonschema.validate(json.load(open('/verif/MANIFEST.json')), json.load(open('/root/.vp/MANIFEST.schema.json')))
for f in glob.glob('/verif/evidence/*.json'):
    jsonschema.validate(json.load(open(f)), json.load(open('/root/.vp/EVIDENCE.schema.json')))
    print("ok", f)
print("schemas ok")
