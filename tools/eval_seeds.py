#!/usr/bin/env python3
"""Run the registered checks against every confirmed seeded change (scratch copies, never /repo itself in this
batch mode) and write /verif/seeded/RESULTS.md + per-seed detection records.
usage: tools/eval_seeds.py [-j 4] [seed-id ...]"""
import os, sys, json, subprocess, shutil, concurrent.futures, re
V = os.path.dirname(os.path.dirname(os.path.abspath(__file__)))
SEEDED = os.path.join(V, "seeded")


def run_one(sid):
    d = os.path.join(SEEDED, sid)
    meta = json.load(open(os.path.join(d, "meta.json")))
    prop = meta.get("property") or sid.split("-")[0]
    prop = prop if re.match(r"^C\d\d$", prop) else sid.split("-")[0]
    work = f"/tmp/ev_{sid}"
    shutil.rmtree(work, ignore_errors=True)
    os.makedirs(work + "/repo")
    subprocess.run("git -C /repo archive HEAD | tar -x -C %s/repo" % work, shell=True, check=True)
    ap = subprocess.run(["git", "apply", os.path.join(d, "patch.diff")], cwd=work + "/repo", capture_output=True, text=True)
    if ap.returncode != 0:
        shutil.rmtree(work, ignore_errors=True)
        return sid, prop, {"status": "patch-does-not-apply", "exit": None, "lines": []}
    env = dict(os.environ, VX_REPO=work + "/repo", VX_BUILD=work + "/build", VX_EVIDENCE_DIR=work + "/evidence")
    p = subprocess.run([os.path.join(V, "vx"), "check", prop], capture_output=True, text=True, env=env, cwd=V)
    lines = [l[:260] for l in p.stdout.splitlines() if l.startswith(("VIOLATION", "TOOL", "KNOWN")) or "verification items" in l]
    obl = []
    for rp in re.findall(r"replay=(\S+)", p.stdout):
        try:
            obl.append(json.load(open(rp))["obligation"][:200])
        except Exception:
            pass
    shutil.rmtree(work, ignore_errors=True)
    status = {0: "MISSED (exit 0)", 1: "DETECTED", 2: "UNDECIDED (exit 2: tool failure)"}.get(p.returncode, f"exit {p.returncode}")
    return sid, prop, {"status": status, "exit": p.returncode, "lines": lines, "failed_obligations": sorted(set(obl))}


def main():
    args = sys.argv[1:]
    jobs = 4
    if args[:1] == ["-j"]:
        jobs = int(args[1]); args = args[2:]
    ids = args or sorted(x for x in os.listdir(SEEDED) if os.path.isdir(os.path.join(SEEDED, x)))
    res = {}
    with concurrent.futures.ThreadPoolExecutor(max_workers=jobs) as ex:
        for sid, prop, r in ex.map(run_one, ids):
            res[sid] = (prop, r)
            print(sid, prop, r["status"], flush=True)
            mp = os.path.join(SEEDED, sid, "meta.json")
            m = json.load(open(mp))
            m["check_result"] = {"check": f"./vx check {prop}", "base_commit": subprocess.run(["git", "-C", "/repo", "log", "--format=%h", "-1"], capture_output=True, text=True).stdout.strip(), **r}
            json.dump(m, open(mp, "w"), indent=1)
    # summary over all seeds (also the ones not re-run now)
    rows = []
    for sid in sorted(x for x in os.listdir(SEEDED) if os.path.isdir(os.path.join(SEEDED, x))):
        m = json.load(open(os.path.join(SEEDED, sid, "meta.json")))
        cr = m.get("check_result", {})
        kinds = []
        for o in cr.get("failed_obligations", []):
            k = "bounded replay" if o.startswith("xcheck:") else "macro-output validation" if o.startswith("trie:") else "Kani harness" if o.startswith("kani:") else "replayed input" if o.startswith("replay:") else "Verus obligation"
            if k not in kinds:
                kinds.append(k)
        if any(l.startswith("TOOL") for l in cr.get("lines", [])):
            kinds.append("(deductive pass: tool failure)")
        rows.append(f"| {sid} | {m.get('property','')} | {', '.join(m.get('files_touched', []))[:60]} | {cr.get('status','not run')} | {', '.join(kinds)} | {'; '.join(cr.get('failed_obligations', []))[:200].replace('|','/')} |")
    rows = ["".join(ch if (32 <= ord(ch) < 127 or ch in "\n—–…") else "\\x%02x" % (ord(ch) & 0xff) for ch in r) for r in rows]
    open(os.path.join(SEEDED, "RESULTS.md"), "w").write("# Seeded changes vs. registered checks (quick tier, scratch copies of /repo HEAD)\n\n| seed | property | files | result | reported by | failed obligation(s) / scenario |\n|---|---|---|---|---|---|\n" + "\n".join(rows) + "\n")


if __name__ == "__main__":
    main()
