#!/bin/bash
# usage: tools/xcheck_seed.sh <seed-id> <family> [args]  — build xcheck against a scratch copy of /repo HEAD + seeded change, run one family
id=$1; fam=$2; shift 2
w=/tmp/xs_$id; rm -rf $w; mkdir -p $w/repo $w/x
git -C /repo archive HEAD | tar -x -C $w/repo
( cd $w/repo && git apply /verif/seeded/$id/patch.diff ) || { echo "patch does not apply"; rm -rf $w; exit 9; }
sed "s#@REPO@#$w/repo#" /verif/xcheck/Cargo.toml.in > $w/x/Cargo.toml; cp -r /verif/xcheck/src $w/x/src; cp $w/repo/Cargo.lock $w/x/
( cd $w/x && cargo build --offline --target-dir $w/t 2>&1 | grep -E "^error" -A8 | head -30 )
timeout 600 $w/t/debug/vx-xcheck family $fam --max-report 2 "$@" | cut -c1-700
rc=$?
rm -rf $w
exit $rc
