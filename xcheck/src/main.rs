//! vx-xcheck: bounded differential replay of the REAL crate (the repository this harness is built against) against the
//! executable transcription of the specification (`oracle.rs`). It never decides a proof obligation: it (a) searches
//! a failing input for an obligation the verifier reported, and (b) stands in, labelled *bounded*, when a contract can
//! no longer be woven into a restructured function.
//!
//! usage: vx-xcheck family <name> [--budget N] [--seed S] [--max-report K]     enumerate a generator family
//!        vx-xcheck one '<scenario json>'                                      run one scenario, print both sides
//!        vx-xcheck families                                                   list families, properties, bounds
//! output of `family`: one JSON line per mismatch, then a summary line {"family":..,"scenarios":N,"mismatches":M,...}
mod dev;
mod gen;
mod oracle;

use core::future::Future;
use core::pin::{pin, Pin};
use core::task::{Context, Poll, RawWaker, RawWakerVTable, Waker};
use std::panic::{catch_unwind, AssertUnwindSafe};

use dev::{Dev, DevRaw, DevRaw1, DevRaw2, DevRaw5, REv};
use microscpi::ErrorQueue;
use microscpi::{Adapter, Error, Interface, Write};
use oracle::{Exp, OEv, OTree, RunSt, Tok};

pub fn block_on<F: Future>(f: F) -> F::Output {
    fn noop(_: *const ()) {}
    fn clone(_: *const ()) -> RawWaker { RawWaker::new(core::ptr::null(), &VT) }
    static VT: RawWakerVTable = RawWakerVTable::new(clone, noop, noop, noop);
    let waker = unsafe { Waker::from_raw(RawWaker::new(core::ptr::null(), &VT)) };
    let mut cx = Context::from_waker(&waker);
    let mut f = pin!(f);
    loop {
        if let Poll::Ready(v) = f.as_mut().poll(&mut cx) { return v; }
    }
}
/// a future that suspends `n` times before completing (C07: "for every pattern in which the futures suspend")
pub struct Yield(pub usize);
impl Future for Yield {
    type Output = ();
    fn poll(mut self: Pin<&mut Self>, _cx: &mut Context<'_>) -> Poll<()> {
        if self.0 == 0 { Poll::Ready(()) } else { self.0 -= 1; Poll::Pending }
    }
}

// ---------------- scenarios ----------------
#[derive(Clone, Debug)]
pub enum Mode {
    /// Interface::run with a logging writer (records flush offsets); also repeated with std Vec and compared
    Run,
    /// Interface::run with a heapless::Vec<u8, CAP> writer
    RunCap(usize),
    /// Interface::run on the device that owns the crate's StaticErrorQueue directly (no logging wrapper): handler
    /// calls, responses, and the queue content drained at the end are compared
    RunRaw(usize),
    /// the messages of the stream handed to Interface::run one at a time (same device, a fresh writer per message);
    /// reference of the second sentence of C07. Invalid (nothing compared) when a message is left partly unconsumed.
    RunEach(usize),
    /// Interface::process::<N> with the input delivered as these reads; `yields`: suspensions per adapter call;
    /// `fail_at`: index of the adapter call that returns an error
    Process { n: usize, cuts: Vec<usize>, yields: usize, fail_at: Option<usize> },
}
#[derive(Clone, Debug)]
pub struct Scenario { pub mode: Mode, pub input: Vec<u8>, /// compare `process` with ONE run over the whole stream (C08)
    pub whole: bool,
    /// metamorphic reference: the observation must equal that of this scenario on the real code (C07, C11)
    pub base: Option<Box<Scenario>> }

// ---------------- the real side ----------------
#[derive(Clone, Debug, PartialEq)]
pub enum TEv { Read(usize), Write(Vec<u8>), Flush, Fail }
#[derive(Debug, Default)]
pub struct RealObs { pub log: Vec<REv>, pub out: Vec<u8>, pub flushes: Vec<usize>, pub rest: Option<usize>, pub panic: Option<String>,
    pub trace: Vec<TEv>, pub ret: Option<String>, pub out_std: Option<Vec<u8>>, pub log_std: Option<Vec<REv>>, pub final_queue: Vec<i16> }

struct LogWriter { out: Vec<u8>, flushes: Vec<usize> }
impl Write for LogWriter {
    async fn write_bytes(&mut self, bytes: &[u8]) -> Result<(), Error> { self.out.extend_from_slice(bytes); Ok(()) }
    async fn write_char(&mut self, c: char) -> Result<(), Error> { let mut b = [0u8; 4]; self.out.extend_from_slice(c.encode_utf8(&mut b).as_bytes()); Ok(()) }
    async fn write_str(&mut self, s: &str) -> Result<(), Error> { self.out.extend_from_slice(s.as_bytes()); Ok(()) }
    async fn write_fmt(&mut self, args: core::fmt::Arguments<'_>) -> Result<(), Error> { self.out.extend_from_slice(std::fmt::format(args).as_bytes()); Ok(()) }
    async fn flush(&mut self) -> Result<(), Error> { Yield(1).await; self.flushes.push(self.out.len()); Ok(()) }
}
struct Chunks { data: Vec<u8>, cuts: Vec<usize>, next: usize, pos: usize, trace: Vec<TEv>, yields: usize, fail_at: Option<usize>, calls: usize }
impl Chunks {
    fn tick(&mut self) -> bool { let f = self.fail_at == Some(self.calls); self.calls += 1; if f { self.trace.push(TEv::Fail); } f }
}
impl Adapter for Chunks {
    type Error = &'static str;
    async fn read(&mut self, dst: &mut [u8]) -> Result<usize, Self::Error> {
        Yield(self.yields).await;
        if self.tick() { return Err("injected"); }
        if self.pos >= self.data.len() && self.next >= self.cuts.len() { self.trace.push(TEv::Fail); return Err("end of input"); }
        // the current read ends at the next cut (an empty read when two cuts coincide)
        let end = if self.next < self.cuts.len() { self.cuts[self.next] } else { self.data.len() };
        let n = core::cmp::min(dst.len(), end - self.pos);
        dst[..n].copy_from_slice(&self.data[self.pos..self.pos + n]);
        self.pos += n;
        if self.pos >= end { self.next += 1; }
        self.trace.push(TEv::Read(n));
        Ok(n)
    }
    async fn write(&mut self, src: &[u8]) -> Result<(), Self::Error> {
        Yield(self.yields).await;
        if self.tick() { return Err("injected"); }
        self.trace.push(TEv::Write(src.to_vec())); Ok(())
    }
    async fn flush(&mut self) -> Result<(), Self::Error> {
        Yield(self.yields).await;
        if self.tick() { return Err("injected"); }
        self.trace.push(TEv::Flush); Ok(())
    }
}
macro_rules! with_n { ($n:expr, $m:ident, [$($k:literal),*]) => { match $n { $($k => $m!($k),)* _ => panic!("unsupported size {}", $n) } } }

pub fn run_real(sc: &Scenario) -> RealObs {
    let mut obs = RealObs::default();
    let r = catch_unwind(AssertUnwindSafe(|| {
        let mut o = RealObs::default();
        match &sc.mode {
            Mode::Run => {
                let mut d = Dev::new();
                let mut w = LogWriter { out: vec![], flushes: vec![] };
                let rest = block_on(d.run(&sc.input, &mut w)).len();
                o.log = d.log.borrow().clone(); o.out = w.out; o.flushes = w.flushes; o.rest = Some(rest);
                // C04: "the bytes are the same for every writer implementation that has room for them"
                let mut d2 = Dev::new();
                let mut v: Vec<u8> = Vec::new();
                let rest2 = block_on(d2.run(&sc.input, &mut v)).len();
                o.out_std = Some(v); o.log_std = Some(d2.log.borrow().clone());
                if rest2 != rest { o.log_std = Some(vec![REv::Call(format!("<rest {rest2} != {rest}>"))]); }
            },
            Mode::RunRaw(qcap) => {
                macro_rules! go { ($t:ident) => {{
                    let mut d = $t::new();
                    let mut w = LogWriter { out: vec![], flushes: vec![] };
                    let rest = block_on(d.run(&sc.input, &mut w)).len();
                    o.log = d.log.borrow().clone(); o.out = w.out; o.flushes = w.flushes; o.rest = Some(rest);
                    o.final_queue.push(d.queue.error_count() as i16);
                    while let Some(e) = d.queue.pop_error() { o.final_queue.push(e.number()); if o.final_queue.len() > 64 { break; } }
                }} }
                match *qcap { 1 => go!(DevRaw1), 2 => go!(DevRaw2), 5 => go!(DevRaw5), _ => go!(DevRaw) }
            },
            Mode::RunEach(cap) => {
                // an unbounded writer; the relation is claimed only when every message and every message's response
                // fit in N bytes (process uses an N byte response buffer), otherwise the reference is marked invalid
                let mut d = Dev::new();
                let mut ok = true;
                for m in sc.input.split_inclusive(|b| *b == b'\n') {
                    let mut w = LogWriter { out: vec![], flushes: vec![] };
                    let rest = block_on(d.run(m, &mut w)).len();
                    if rest != 0 || m.last() != Some(&b'\n') || w.out.len() > *cap || m.len() > *cap { ok = false; }
                    if !w.out.is_empty() { o.trace.push(TEv::Write(w.out)); }
                }
                o.log = d.log.borrow().clone();
                o.rest = Some(if ok { 0 } else { 1 });
            },
            Mode::RunCap(cap) => {
                let mut d = Dev::new();
                macro_rules! go { ($k:literal) => {{ let mut w: heapless::Vec<u8, $k> = heapless::Vec::new(); let rest = block_on(d.run(&sc.input, &mut w)).len(); (w.to_vec(), rest) }} }
                let (out, rest) = with_n!(*cap, go, [1, 2, 3, 4, 6, 8, 12, 16, 24, 32, 48, 64, 256, 1024]);
                o.log = d.log.borrow().clone(); o.out = out; o.rest = Some(rest);
            },
            Mode::Process { n, cuts, yields, fail_at } => {
                let mut d = Dev::new();
                let mut ad = Chunks { data: sc.input.clone(), cuts: cuts.clone(), next: 0, pos: 0, trace: vec![], yields: *yields, fail_at: *fail_at, calls: 0 };
                macro_rules! go { ($k:literal) => { block_on(d.process::<$k, _>(&mut ad)) } }
                let r = with_n!(*n, go, [1, 2, 3, 4, 5, 6, 7, 8, 10, 12, 16, 21, 24, 32, 43, 48, 64, 128]);
                o.ret = Some(format!("{r:?}"));
                o.log = d.log.borrow().clone(); o.trace = ad.trace;
            },
        }
        o
    }));
    match r { Ok(o) => obs = o, Err(e) => { obs.panic = Some(e.downcast_ref::<String>().cloned().or_else(|| e.downcast_ref::<&str>().map(|s| s.to_string())).unwrap_or_else(|| "panic".into())); } }
    obs
}

// ---------------- comparison ----------------
#[derive(Debug)]
pub struct Diff { pub kind: &'static str, pub detail: String }
fn exp_ok(e: &Exp, c: i16) -> bool { match e { Exp::Exact(x) => *x == c, Exp::AnyOf(v) => v.contains(&c), Exp::Any => true } }

pub fn cmp_log(real: &[REv], exp: &[OEv], calls_only: bool, prefix_ok: bool, diffs: &mut Vec<Diff>) {
    let (r, e): (Vec<&REv>, Vec<&OEv>) = if calls_only {
        (real.iter().filter(|x| matches!(x, REv::Call(_))).collect(), exp.iter().filter(|x| matches!(x, OEv::Call(_))).collect())
    } else { (real.iter().collect(), exp.iter().collect()) };
    for i in 0..r.len().max(e.len()) {
        match (r.get(i), e.get(i)) {
            (Some(REv::Call(a)), Some(OEv::Call(b))) => if a != b {
                let (na, nb) = (a.split('(').next().unwrap_or(""), b.split('(').next().unwrap_or(""));
                diffs.push(Diff { kind: if na != nb { "handler" } else { "args" }, detail: format!("event {i}: handler call {a} instead of {b}") });
                return;
            },
            (Some(REv::Err(c)), Some(OEv::Err(x))) => if !exp_ok(x, *c) { diffs.push(Diff { kind: "error", detail: format!("event {i}: error {c} reported, expected {x:?}") }); return; },
            (Some(a), Some(b)) => { diffs.push(Diff { kind: if matches!(a, REv::Call(_)) || matches!(b, OEv::Call(_)) { "handler" } else { "error" }, detail: format!("event {i}: {a:?} instead of {b:?}") }); return; },
            (Some(a), None) => { diffs.push(Diff { kind: if matches!(a, REv::Call(_)) { "handler" } else { "error" }, detail: format!("event {i}: unexpected {a:?} (expected nothing more)") }); return; },
            (None, Some(b)) => { if !prefix_ok { diffs.push(Diff { kind: if matches!(b, OEv::Call(_)) { "handler" } else { "error" }, detail: format!("event {i}: missing {b:?}") }); } return; },
            (None, None) => {},
        }
    }
}
/// matches `real` against the expected tokens; returns the flush offsets the tokens imply
pub fn cmp_out(real: &[u8], toks: &[Tok], diffs: &mut Vec<Diff>) -> Vec<usize> {
    let mut pos = 0usize;
    let mut fl = vec![];
    let show = |b: &[u8]| String::from_utf8_lossy(b).into_owned();
    for t in toks {
        match t {
            Tok::Bytes(b) => {
                if real.len() < pos + b.len() || &real[pos..pos + b.len()] != &b[..] {
                    diffs.push(Diff { kind: "response", detail: format!("response bytes at offset {pos}: {:?} instead of {:?}", show(&real[pos.min(real.len())..]), show(b)) });
                    return fl;
                }
                pos += b.len();
            },
            Tok::F32(_) | Tok::F64(_) => {
                let end = real[pos..].iter().position(|c| *c == b',' || *c == b'\n').map(|k| pos + k).unwrap_or(real.len());
                let txt = std::str::from_utf8(&real[pos..end]).unwrap_or("<not utf8>");
                let ok = match t {
                    Tok::F32(v) => txt.parse::<f32>().map(|x| x.to_bits() == v.to_bits()).unwrap_or(false),
                    Tok::F64(v) => txt.parse::<f64>().map(|x| x.to_bits() == v.to_bits()).unwrap_or(false),
                    _ => false,
                };
                // IEEE 488.2 <NR2>/<NR3> response data: digits, sign, point, exponent only
                let wf = !txt.is_empty() && txt.bytes().all(|c| c.is_ascii_digit() || b"+-.Ee".contains(&c));
                if !ok || !wf { diffs.push(Diff { kind: "response", detail: format!("decimal real {txt:?} at offset {pos} does not decode to {t:?}") }); return fl; }
                pos = end;
            },
            Tok::QErr(exp) => {
                let end = real[pos..].iter().position(|c| *c == b'\n').map(|k| pos + k).unwrap_or(real.len());
                let txt = show(&real[pos..end]);
                let ok = (|| {
                    let (num, desc) = txt.split_once(',')?;
                    let code: i16 = num.parse().ok()?;
                    if !exp_ok(exp, code) { return None; }
                    let d = desc.strip_prefix('"')?.strip_suffix('"')?;
                    let want = oracle::description(code)?;
                    if d.to_ascii_lowercase() == want { Some(()) } else { None }
                })();
                if ok.is_none() { diffs.push(Diff { kind: "queue", detail: format!("error queue entry {txt:?} does not meet {exp:?} / the description of its number") }); return fl; }
                pos = end;
            },
            Tok::Flush => fl.push(pos),
        }
    }
    if pos != real.len() { diffs.push(Diff { kind: "response", detail: format!("unexpected output {:?} after the expected {pos} bytes", show(&real[pos..])) }); }
    fl
}

pub fn check(t: &OTree, sc: &Scenario) -> (RealObs, Vec<Diff>, String) {
    let real = run_real(sc);
    let mut diffs = vec![];
    let mut exp_txt = String::new();
    if let Some(p) = &real.panic { diffs.push(Diff { kind: "panic", detail: format!("the library panicked: {p}") }); return (real, diffs, exp_txt); }
    if let Some(b) = &sc.base {
        let rb = run_real(b);
        exp_txt = format!("same as {}: log {:?} out {:?} rest {:?} writes {:?}", sc_json(b), rb.log, String::from_utf8_lossy(&rb.out), rb.rest, writes_of(&rb.trace));
        if let Some(p) = &rb.panic { diffs.push(Diff { kind: "panic", detail: format!("the library panicked on the reference input: {p}") }); return (real, diffs, exp_txt); }
        if matches!(b.mode, Mode::RunEach(_)) && rb.rest != Some(0) { return (real, diffs, exp_txt); }   // precondition of the relation not met
        for i in 0..real.log.len().max(rb.log.len()) {
            match (real.log.get(i), rb.log.get(i)) {
                (Some(a), Some(b)) if a == b => {},
                (a, b) => {
                    let kind = match (a, b) {
                        (Some(REv::Call(x)), Some(REv::Call(y))) => if x.split('(').next() != y.split('(').next() { "handler" } else { "args" },
                        (Some(REv::Call(_)), _) | (_, Some(REv::Call(_))) => "handler",
                        _ => "error",
                    };
                    diffs.push(Diff { kind, detail: format!("event {i}: {a:?} instead of {b:?}") });
                    return (real, diffs, exp_txt);
                },
            }
        }
        if real.out != rb.out { diffs.push(Diff { kind: "response", detail: format!("response {:?} instead of {:?}", String::from_utf8_lossy(&real.out), String::from_utf8_lossy(&rb.out)) }); }
        if writes_of(&real.trace).concat() != writes_of(&rb.trace).concat() { diffs.push(Diff { kind: "response", detail: format!("writes {:?} instead of {:?}", writes_of(&real.trace), writes_of(&rb.trace)) }); }
        if matches!(sc.mode, Mode::Run) && (real.rest == Some(0)) != (rb.rest == Some(0)) { diffs.push(Diff { kind: "rest", detail: format!("{:?} bytes left unconsumed, reference {:?}", real.rest, rb.rest) }); }
        return (real, diffs, exp_txt);
    }
    match &sc.mode {
        Mode::RunEach(_) => {},
        Mode::RunRaw(qcap) => {
            let mut st = RunSt::new(None);
            st.dev.qcap = *qcap;
            let rest = oracle::spec_run(t, 0, 0, &sc.input, &mut st);
            exp_txt = format!("calls {:?} out {:?} rest {rest} final queue {:?}", st.log.iter().filter(|e| matches!(e, OEv::Call(_))).collect::<Vec<_>>(), st.out, st.dev.queue);
            cmp_log(&real.log, &st.log, true, false, &mut diffs);
            if diffs.iter().any(|d| d.kind == "handler" || d.kind == "args") { return (real, diffs, exp_txt); }
            let _ = cmp_out(&real.out, &st.out, &mut diffs);
            let (cnt, entries) = (real.final_queue.first().copied().unwrap_or(-1), &real.final_queue[1.min(real.final_queue.len())..]);
            if cnt as usize != st.dev.queue.len() || entries.len() != st.dev.queue.len() || entries.iter().zip(&st.dev.queue).any(|(c, e)| !exp_ok(e, *c)) {
                diffs.push(Diff { kind: "queue", detail: format!("the queue holds {cnt} entries {entries:?} at the end, expected {:?}", st.dev.queue) });
            }
            if real.rest != Some(rest) { diffs.push(Diff { kind: "rest", detail: format!("run left {:?} bytes unconsumed, expected {rest}", real.rest) }); }
        },
        Mode::Run | Mode::RunCap(_) => {
            let mut st = RunSt::new(if let Mode::RunCap(c) = sc.mode { Some(c) } else { None });
            let rest = oracle::spec_run(t, 0, 0, &sc.input, &mut st);
            exp_txt = format!("log {:?} out {:?} rest {rest}", st.log, st.out);
            if st.uncertain { return (real, diffs, exp_txt); }
            if st.overflow {
                // everything after the first response that does not fit is unspecified; what must hold: the handler
                // calls up to it, at least one reported error, no panic, a suffix is returned
                if !real.log.iter().any(|e| matches!(e, REv::Err(_))) { diffs.push(Diff { kind: "error", detail: "a response that does not fit the writer was not reported".into() }); }
                if real.rest.map(|r| r > sc.input.len()).unwrap_or(false) { diffs.push(Diff { kind: "rest", detail: "run returned more than it was given".into() }); }
                return (real, diffs, exp_txt);
            }
            cmp_log(&real.log, &st.log, false, false, &mut diffs);
            // the expected output is that of the expected calls: when a different handler ran or it received different
            // values, the response is not comparable (and is another property's business)
            if diffs.iter().any(|d| d.kind == "handler" || d.kind == "args") { return (real, diffs, exp_txt); }
            let fl = cmp_out(&real.out, &st.out, &mut diffs);
            if matches!(sc.mode, Mode::Run) && diffs.is_empty() {
                if fl != real.flushes { diffs.push(Diff { kind: "flush", detail: format!("writer flushed at offsets {:?}, expected after every response: {:?}", real.flushes, fl) }); }
                if real.out_std.as_deref() != Some(&real.out[..]) || real.log_std.as_deref() != Some(&real.log[..]) {
                    diffs.push(Diff { kind: "writer", detail: format!("std Vec writer: out {:?} log {:?}; logging writer: out {:?}", real.out_std.as_deref().map(String::from_utf8_lossy), real.log_std, String::from_utf8_lossy(&real.out)) });
                }
            }
            if real.rest != Some(rest) { diffs.push(Diff { kind: "rest", detail: format!("run left {:?} bytes unconsumed, expected {rest}", real.rest) }); }
        },
        Mode::Process { n, fail_at, .. } => {
            // expected: the abstract machine fed with the bytes the transport actually delivered
            let delivered: usize = real.trace.iter().map(|e| if let TEv::Read(k) = e { *k } else { 0 }).sum();
            let mut outs: Vec<Vec<Tok>> = vec![];
            let mut due: Vec<usize> = vec![];
            let log: Vec<OEv>;
            let mut skip_out = false;
            if sc.whole {
                let mut st = RunSt::new(Some(*n));
                let _ = oracle::spec_run(t, 0, 0, &sc.input[..delivered], &mut st);
                if st.uncertain || st.overflow { return (real, diffs, exp_txt); }
                let all: Vec<u8> = real.trace.iter().filter_map(|e| if let TEv::Write(b) = e { Some(b.clone()) } else { None }).flatten().collect();
                let toks: Vec<Tok> = st.out.iter().filter(|t| !matches!(t, Tok::Flush)).cloned().collect();
                let _ = cmp_out(&all, &toks, &mut diffs);
                log = st.log; skip_out = true;
            } else {
                let mut p = oracle::PSt { st: RunSt::new(Some(*n)), win: vec![], outs: vec![], due: vec![], fed: 0 };
                for b in &sc.input[..delivered] { oracle::feed_byte(t, &mut p, *b, *n); }
                if p.st.uncertain { return (real, diffs, exp_txt); }
                if p.st.overflow { skip_out = true; }
                log = p.st.log; outs = p.outs; due = p.due;
            }
            exp_txt = format!("log {:?} writes {:?} due {:?}", log, outs, due);
            // an injected failure between a run and its write leaves the last response unwritten: compare what was written
            // after an injected transport error nothing further runs: the log is a prefix of the uninterrupted one
            let injected = real.ret.as_deref() == Some("Err(\"injected\")");
            cmp_log(&real.log, &log, skip_out && !sc.whole, injected, &mut diffs);
            let writes: Vec<&Vec<u8>> = real.trace.iter().filter_map(|e| if let TEv::Write(b) = e { Some(b) } else { None }).collect();
            if !skip_out {
                let failed = real.trace.iter().any(|e| matches!(e, TEv::Fail)) && fail_at.is_some();
                // what was written, as one stream, against the expected payloads in order; `ends[i]`: the offset in
                // that stream at which the response(s) of the i-th answering message are complete
                let all: Vec<u8> = writes.iter().flat_map(|w| w.iter().copied()).collect();
                let mut toks: Vec<Tok> = vec![];
                for o in &outs { toks.extend(o.iter().filter(|t| !matches!(t, Tok::Flush)).cloned()); toks.push(Tok::Flush); }
                let mut d2 = vec![];
                let ends = cmp_out(&all, &toks, &mut d2);
                // (after an injected transport error the written stream is a prefix of the expected one: not compared)
                if !failed { diffs.extend(d2); }
                if writes.iter().any(|w| w.is_empty()) { diffs.push(Diff { kind: "transport", detail: "empty write (a message without a response must write nothing)".into() }); }
                // C10: every response that is due is written and flushed before the next read
                let mut got = 0usize; let mut written = 0usize; let mut flushed = true;
                for e in &real.trace {
                    match e {
                        TEv::Read(k) => {
                            let owed = due.iter().filter(|d| **d <= got).count();
                            let need = if owed == 0 { 0 } else { ends.get(owed - 1).copied().unwrap_or(usize::MAX) };
                            if (need != usize::MAX && written < need) || !flushed {
                                diffs.push(Diff { kind: "transport", detail: format!("read issued after {got} stream bytes while {owed} response(s) ({need} bytes) were due and {written} bytes written (flushed: {flushed})") });
                                break;
                            }
                            got += k;
                        },
                        TEv::Write(b) => { written += b.len(); flushed = false; },
                        TEv::Flush => flushed = true,
                        TEv::Fail => {},
                    }
                }
            }
            // C10: ends only with the transport's error, at once
            match real.trace.iter().position(|e| matches!(e, TEv::Fail)) {
                None => diffs.push(Diff { kind: "transport", detail: format!("process returned {:?} without a transport error", real.ret) }),
                Some(k) => {
                    if k + 1 != real.trace.len() { diffs.push(Diff { kind: "transport", detail: format!("{} transport call(s) after the failed one", real.trace.len() - k - 1) }); }
                    let want = if fail_at.is_some() && real.ret.as_deref() == Some("Err(\"injected\")") { "Err(\"injected\")" } else { "Err(\"end of input\")" };
                    if real.ret.as_deref() != Some(want) { diffs.push(Diff { kind: "transport", detail: format!("process returned {:?}, the transport's error was {want}", real.ret) }); }
                },
            }
        },
    }
    (real, diffs, exp_txt)
}

fn writes_of(t: &[TEv]) -> Vec<String> { t.iter().filter_map(|e| if let TEv::Write(b) = e { Some(String::from_utf8_lossy(b).into_owned()) } else { None }).collect() }
/// JSON string literal (Rust's {:?} escapes such as \u{b} are not JSON)
pub fn jstr(s: &str) -> String {
    let mut o = String::from("\"");
    for c in s.chars() {
        match c {
            '"' => o.push_str("\\\""), '\\' => o.push_str("\\\\"), '\n' => o.push_str("\\n"), '\r' => o.push_str("\\r"), '\t' => o.push_str("\\t"),
            c if (c as u32) < 0x20 || c == '\u{7f}' => o.push_str(&format!("\\u{:04x}", c as u32)),
            c => o.push(c),
        }
    }
    o.push('"');
    o
}
fn hex(b: &[u8]) -> String { b.iter().map(|x| format!("{x:02x}")).collect() }
fn unhex(s: &str) -> Vec<u8> { (0..s.len() / 2).map(|i| u8::from_str_radix(&s[2 * i..2 * i + 2], 16).unwrap()).collect() }
pub fn sc_json(sc: &Scenario) -> String {
    let mode = match &sc.mode {
        Mode::Run => "\"mode\":\"run\"".to_string(),
        Mode::RunRaw(c) => format!("\"mode\":\"runraw\",\"cap\":{c}"),
        Mode::RunEach(c) => format!("\"mode\":\"runeach\",\"cap\":{c}"),
        Mode::RunCap(c) => format!("\"mode\":\"runcap\",\"cap\":{c}"),
        Mode::Process { n, cuts, yields, fail_at } => format!("\"mode\":\"process\",\"n\":{n},\"cuts\":{cuts:?},\"yields\":{yields},\"fail_at\":{}", fail_at.map(|x| x.to_string()).unwrap_or("null".into())),
    };
    let base = match &sc.base { Some(b) => format!(",\"base\":{}", sc_json(b)), None => String::new() };
    format!("{{{mode},\"whole\":{},\"input_hex\":\"{}\",\"input\":{}{base}}}", sc.whole, hex(&sc.input), jstr(&String::from_utf8_lossy(&sc.input)))
}
/// minimal parser for the scenario objects this program prints
fn sc_parse(s0: &str) -> Scenario {
    let (s, base) = match s0.find(",\"base\":") { Some(i) => (&s0[..i], Some(Box::new(sc_parse(&s0[i + 8..])))), None => (s0, None) };
    let field = |k: &str| -> Option<String> {
        let key = format!("\"{k}\":");
        let i = s.find(&key)? + key.len();
        let rest = &s[i..];
        let end = if rest.starts_with('"') { rest[1..].find('"')? + 2 } else if rest.starts_with('[') { rest.find(']')? + 1 } else { rest.find(|c| c == ',' || c == '}')? };
        Some(rest[..end].trim_matches('"').to_string())
    };
    let input = unhex(&field("input_hex").expect("input_hex"));
    let mode = match field("mode").as_deref() {
        Some("run") => Mode::Run,
        Some("runraw") => Mode::RunRaw(field("cap").map(|x| x.parse().unwrap()).unwrap_or(3)),
        Some("runeach") => Mode::RunEach(field("cap").unwrap().parse().unwrap()),
        Some("runcap") => Mode::RunCap(field("cap").unwrap().parse().unwrap()),
        Some("process") => Mode::Process {
            n: field("n").unwrap().parse().unwrap(),
            cuts: field("cuts").unwrap().trim_matches(|c| c == '[' || c == ']').split(',').filter(|x| !x.trim().is_empty()).map(|x| x.trim().parse().unwrap()).collect(),
            yields: field("yields").map(|x| x.parse().unwrap()).unwrap_or(0),
            fail_at: field("fail_at").and_then(|x| x.parse().ok()),
        },
        m => panic!("mode {m:?}"),
    };
    Scenario { mode, input, whole: field("whole").as_deref() == Some("true"), base }
}

fn main() {
    std::panic::set_hook(Box::new(|_| {}));
    let a: Vec<String> = std::env::args().collect();
    let t = OTree::build(oracle::DECLS);
    let opt = |k: &str, d: u64| -> u64 { a.iter().position(|x| x == k).and_then(|i| a.get(i + 1)).and_then(|v| v.parse().ok()).unwrap_or(d) };
    match a.get(1).map(|s| s.as_str()) {
        Some("families") => { for f in gen::FAMILIES { println!("{{\"family\":\"{}\",\"properties\":{:?},\"bound\":{}}}", f.name, f.props, jstr(f.bound)); } },
        Some("one") => {
            let sc = sc_parse(&a[2]);
            let (real, diffs, exp) = check(&t, &sc);
            println!("scenario: {}", sc_json(&sc));
            println!("real    : log {:?} out {:?} flushes {:?} rest {:?} trace {:?} ret {:?} panic {:?}", real.log, String::from_utf8_lossy(&real.out), real.flushes, real.rest, real.trace, real.ret, real.panic);
            println!("expected: {exp}");
            for d in &diffs { println!("MISMATCH [{}] {}", d.kind, d.detail); }
            std::process::exit(if diffs.is_empty() { 0 } else { 1 });
        },
        Some("family") => {
            let name = a[2].as_str();
            let fam = gen::FAMILIES.iter().find(|f| f.name == name).unwrap_or_else(|| panic!("no such family"));
            let budget = opt("--budget", u64::MAX);
            // the generators read the scale from the upper half of their argument: fold a 64-bit seed into the lower half
            let seed = { let s = opt("--seed", 1); (s ^ (s >> 32)) & 0xffff_ffff };
            let max_report = opt("--max-report", 5);
            let scale = opt("--scale", 1).clamp(1, 64);
            let all_kinds = a.iter().any(|x| x == "--all-kinds");   // development: validate the oracle on every aspect
            let (mut n, mut m) = (0u64, 0u64);
            let mut kinds: Vec<&'static str> = vec![];
            // C05 "never loops without consuming input": a scenario normally takes microseconds; one that makes no
            // progress for 30 s is reported as a hang together with its input
            let progress = std::sync::Arc::new((std::sync::atomic::AtomicU64::new(0), std::sync::Mutex::new(String::new())));
            {
                let pr = progress.clone();
                let fname = fam.name;
                let hang_counts = fam.kinds.contains(&"panic");
                std::thread::spawn(move || {
                    let mut last = u64::MAX; let mut since = std::time::Instant::now();
                    loop {
                        std::thread::sleep(std::time::Duration::from_millis(500));
                        let cur = pr.0.load(std::sync::atomic::Ordering::Relaxed);
                        if cur != last { last = cur; since = std::time::Instant::now(); }
                        else if since.elapsed().as_secs() >= 30 {
                            let sc = pr.1.lock().map(|g| g.clone()).unwrap_or_default();
                            if hang_counts {
                                println!("{{\"mismatch\":{{\"family\":\"{fname}\",\"kind\":\"hang\",\"detail\":\"no progress for 30 s on this scenario (loops without consuming input)\",\"expected\":\"termination\",\"scenario\":{sc}}}}}");
                                println!("{{\"family\":\"{fname}\",\"scenarios\":{cur},\"mismatches\":1,\"kinds\":[\"hang\"],\"bound\":\"aborted at the hanging scenario\"}}");
                                std::process::exit(1);
                            } else {
                                println!("{{\"family\":\"{fname}\",\"scenarios\":{cur},\"mismatches\":0,\"kinds\":[],\"aborted\":\"hang (belongs to C05)\",\"bound\":\"aborted at a hanging scenario\"}}");
                                std::process::exit(3);
                            }
                        }
                    }
                });
            }
            (fam.gen)(seed.wrapping_add(scale << 32), &mut |sc: Scenario| -> bool {
                if n >= budget { return false; }
                n += 1;
                if let Ok(mut g) = progress.1.lock() { *g = sc_json(&sc); }
                progress.0.store(n, std::sync::atomic::Ordering::Relaxed);
                let (_real, diffs, exp) = check(&t, &sc);
                // only the aspects this family is about count (the others belong to other properties' families)
                let rel: Vec<&Diff> = diffs.iter().filter(|d| all_kinds || fam.kinds.contains(&d.kind)).collect();
                if !rel.is_empty() {
                    m += 1;
                    for d in &rel { if !kinds.contains(&d.kind) { kinds.push(d.kind); } }
                    if m <= max_report {
                        println!("{{\"mismatch\":{{\"family\":\"{}\",\"kind\":\"{}\",\"detail\":{},\"expected\":{},\"scenario\":{}}}}}", fam.name, rel[0].kind, jstr(&rel[0].detail), jstr(&exp), sc_json(&sc));
                    }
                }
                true
            });
            println!("{{\"family\":\"{}\",\"scenarios\":{n},\"mismatches\":{m},\"kinds\":{:?},\"bound\":{}}}", fam.name, kinds, jstr(fam.bound));
            std::process::exit(if m == 0 { 0 } else { 1 });
        },
        _ => { eprintln!("usage: vx-xcheck family <name> | one <json> | families"); std::process::exit(2); },
    }
}
