//! The device under test: interface T2, compiled through the REAL `#[microscpi::interface]` macro of the repository
//! the harness is built against. Every handler records its call (name + the argument values it RECEIVED) in a shared
//! log; errors handed to the error handler are recorded by the logging error queue. The same declarations and
//! handler behaviours are written down independently in `oracle::decls()` / `oracle::handler()`.
use std::cell::RefCell;
use std::rc::Rc;

use microscpi::{self as scpi, Arbitrary, Characters, Error, ErrorCommands, ErrorQueue, StandardCommands, StaticErrorQueue};

#[derive(Clone, Debug, PartialEq)]
pub enum REv {
    Call(String),
    Err(i16),
}
pub type Log = Rc<RefCell<Vec<REv>>>;

pub const QCAP: usize = 3;

#[derive(Default)]
pub struct LogQueue {
    pub inner: StaticErrorQueue<QCAP>,
    pub log: Log,
}
impl ErrorQueue for LogQueue {
    fn error_count(&self) -> usize { self.inner.error_count() }
    fn push_error(&mut self, error: Error) {
        self.log.borrow_mut().push(REv::Err(error.number()));
        self.inner.push_error(error)
    }
    fn pop_error(&mut self) -> Option<Error> { self.inner.pop_error() }
}

pub const ALL_ERRORS: &[Error] = &[Error::CommandError, Error::InvalidCharacter, Error::SyntaxError, Error::InvalidSeparator, Error::DataTypeError, Error::GetNotAllowed, Error::ParameterNotAllowed, Error::MissingParameter, Error::CommandHeaderError, Error::HeaderSeparatorError, Error::ProgramMnemonicTooLong, Error::UndefinedHeader, Error::HeaderSuffixOutOfRange, Error::UnexpectedNumberOfParameters, Error::NumericDataError, Error::InvalidCharacterInNumber, Error::ExponentTooLarge, Error::TooManyDigits, Error::NumericDataNotAllowed, Error::SuffixError, Error::InvalidSuffix, Error::SuffixTooLong, Error::SuffixNotAllowed, Error::CharacterDataError, Error::InvalidCharacterData, Error::CharacterDataTooLong, Error::CharacterNotAllowed, Error::StringDataError, Error::InvalidStringData, Error::StringDataNotAllowed, Error::BlockDataError, Error::InvalidBlockData, Error::BlockDataNotAllowed, Error::ExpressionError, Error::InvalidExpression, Error::ExpressionDataNotAllowed, Error::ExecutionError, Error::InvalidWhileInLocal, Error::CommandProtected, Error::ParameterError, Error::TriggerError, Error::SettingsConflict, Error::DataOutOfRange, Error::TooMuchData, Error::IllegalParameterValue, Error::OutOfMemory, Error::ListsNotSameLength, Error::DataCorruptOrStale, Error::HardwareError, Error::DeviceSpecificError, Error::SystemError, Error::StorageFault, Error::SelfTestFailed, Error::CalibrationFailed, Error::QueueOverflow, Error::CommunicationError, Error::InputBufferOverrun, Error::TimeoutError, Error::QueryError];
pub fn hexs(b: &[u8]) -> String { b.iter().map(|x| format!("{x:02x}")).collect() }

/// The same device twice: `Dev` reports through the logging queue wrapper (every reported error is seen, in order);
/// `DevRaw` hands the library the crate's own `StaticErrorQueue` directly, so that everything the library does with the
/// queue type itself (including trait methods a wrapper would not forward) is exercised; its errors are observed through
/// the queue queries and by draining the queue at the end.
macro_rules! device { ($m:ident, $name:ident, $qty:ty, $mkq:expr) => {
// (the macro emits its node table as module-level statics: two interfaces need two modules)
pub mod $m {
use super::*;
pub struct $name {
    pub log: Log,
    pub queue: $qty,
    pub level: u8,
    pub text: String,
    pub block: Vec<u8>,
}
impl $name {
    pub fn new() -> $name {
        let log: Log = Rc::new(RefCell::new(Vec::new()));
        $name { log: log.clone(), queue: ($mkq)(log), level: 0, text: String::new(), block: Vec::new() }
    }
    pub(crate) fn call(&self, s: String) { self.log.borrow_mut().push(REv::Call(s)); }
}
impl ErrorCommands for $name {
    fn error_queue(&mut self) -> &mut impl ErrorQueue { &mut self.queue }
}
impl StandardCommands for $name {}

#[scpi::interface(StandardCommands, ErrorCommands)]
impl $name {
    /// an item WITHOUT #[scpi] inside the interface block (command ids are positions among the handlers only)
    pub fn touch(&mut self) -> usize { self.log.borrow().len() }
    pub fn touch2(&mut self) -> usize { self.touch() + 1 }
    pub const ITEM_WITHOUT_HANDLER: u8 = 0;

    #[scpi(cmd = "*IDN?")]
    async fn idn(&mut self) -> Result<&'static str, Error> { self.call("*IDN?".into()); Ok("verif,xcheck,0,1.0") }
    #[scpi(cmd = "*RST")]
    async fn rst(&mut self) -> Result<(), Error> { self.call("*RST".into()); self.level = 0; Ok(()) }
    #[scpi(cmd = "SOURce:LEVel")]
    async fn set_level(&mut self, v: u8) -> Result<(), Error> { self.call(format!("SOUR:LEV({v})")); self.level = v; Ok(()) }
    #[scpi(cmd = "SOURce:LEVel?")]
    async fn get_level(&mut self) -> Result<u8, Error> { self.call("SOUR:LEV?".into()); Ok(self.level) }
    #[scpi(cmd = "SOURce:RANGe")]
    async fn set_range(&mut self, v: i16) -> Result<(), Error> { self.call(format!("SOUR:RANG({v})")); Ok(()) }
    #[scpi(cmd = "LEVel?")]
    async fn root_level(&mut self) -> Result<i32, Error> { self.call("LEV?".into()); Ok(-(self.level as i32) - 1) }
    #[scpi(cmd = "SOURce:[SUB]:MODE")]
    async fn set_mode(&mut self, on: bool) -> Result<(), Error> { self.call(format!("SOUR:SUB:MODE({on})")); Ok(()) }
    #[scpi(cmd = "MATH:SUM?")]
    async fn sum(&mut self, a: u32, b: u32, c: u32) -> Result<u64, Error> { self.call(format!("MATH:SUM?({a},{b},{c})")); Ok(a as u64 + b as u64 + c as u64) }
    #[scpi(cmd = "MATH:MULTiply?")]
    async fn mult(&mut self, a: i64, b: i64) -> Result<i64, Error> { self.call(format!("MATH:MULT?({a},{b})")); Ok(a.wrapping_mul(b)) }
    #[scpi(cmd = "DISPlay:TEXT")]
    async fn set_text(&mut self, s: &str) -> Result<(), Error> { self.call(format!("DISP:TEXT({})", hexs(s.as_bytes()))); self.text = s.into(); Ok(()) }
    #[scpi(cmd = "DISPlay:TEXT?")]
    async fn get_text(&mut self) -> Result<String, Error> { self.call("DISP:TEXT?".into()); Ok(self.text.clone()) }
    #[scpi(cmd = "DATA:BLOCk")]
    async fn set_block(&mut self, b: &[u8]) -> Result<(), Error> { self.call(format!("DATA:BLOC({})", hexs(b))); self.block = b.to_vec(); Ok(()) }
    #[scpi(cmd = "DATA:BLOCk?")]
    async fn get_block(&mut self) -> Result<Arbitrary<'_>, Error> { self.call("DATA:BLOC?".into()); Ok(Arbitrary(&self.block)) }
    #[scpi(cmd = "MEASure:DOUBle?")]
    async fn f64_echo(&mut self, v: f64) -> Result<f64, Error> { self.call(format!("MEAS:DOUB?({:016x})", v.to_bits())); Ok(v) }
    #[scpi(cmd = "MEASure:SINGle?")]
    async fn f32_echo(&mut self, v: f32) -> Result<f32, Error> { self.call(format!("MEAS:SING?({:08x})", v.to_bits())); Ok(v) }
    #[scpi(cmd = "MEASure:PAIR?")]
    async fn pair(&mut self) -> Result<(i8, bool), Error> { self.call("MEAS:PAIR?".into()); Ok((-128, true)) }
    #[scpi(cmd = "MEASure:LIST?")]
    async fn list(&mut self) -> Result<heapless::Vec<u16, 4>, Error> {
        self.call("MEAS:LIST?".into());
        let mut v = heapless::Vec::new();
        for x in [1u16, 65535, 0] { let _ = v.push(x); }
        Ok(v)
    }
    #[scpi(cmd = "MEASure:CHARacter?")]
    async fn chars(&mut self) -> Result<Characters<'static>, Error> { self.call("MEAS:CHAR?".into()); Ok(Characters("VOLT")) }
    #[scpi(cmd = "MEASure:SPECial?")]
    async fn special(&mut self, k: u8) -> Result<(f32, f64), Error> {
        self.call(format!("MEAS:SPEC?({k})"));
        Ok(match k { 4 => (f32::from_bits(0xffc0_0000), f64::from_bits(0xfff8_0000_0000_0000)), 0 => (f32::NAN, f64::NAN), 1 => (f32::INFINITY, f64::NEG_INFINITY), 2 => (f32::MIN_POSITIVE, f64::MAX), _ => (-0.0, 1e-300) })
    }
    #[scpi(cmd = "FAIL")]
    async fn fail(&mut self) -> Result<(), Error> { self.call("FAIL".into()); Err(Error::Custom(42, "custom")) }
    #[scpi(cmd = "FAILQ?")]
    async fn failq(&mut self) -> Result<u8, Error> { self.call("FAILQ?".into()); Err(Error::ExecutionError) }
    #[scpi(cmd = "BIG?")]
    async fn big(&mut self) -> Result<&'static str, Error> { self.call("BIG?".into()); Ok("0123456789012345678901234567890123456789") }
    #[scpi(cmd = "HEX")]
    async fn hex(&mut self, v: u16) -> Result<(), Error> { self.call(format!("HEX({v})")); Ok(()) }
    #[scpi(cmd = "MEASure:TRIple?")]
    async fn triple(&mut self, a: i8, s: &str, on: bool) -> Result<(i8, String, bool), Error> {
        self.call(format!("MEAS:TRI?({a},{},{on})", hexs(s.as_bytes())));
        Ok((a, s.to_string(), on))
    }
    #[scpi(cmd = "SOURce:LEVel:STEP")]
    async fn step(&mut self, v: u8) -> Result<(), Error> { self.call(format!("SOUR:LEV:STEP({v})")); Ok(()) }
    #[scpi(cmd = "CONFigure:SOURce:LEVel?")]
    async fn conf_level(&mut self) -> Result<u8, Error> { self.call("CONF:SOUR:LEV?".into()); Ok(99) }
    #[scpi(cmd = "WIDE")]
    async fn wide(&mut self, a: i32, b: u64, c: i64) -> Result<(), Error> { self.call(format!("WIDE({a},{b},{c})")); Ok(()) }
    #[scpi(cmd = "MEASure:NORMalize")]
    async fn norm(&mut self) -> Result<(), Error> { self.call("MEAS:NORM".into()); Ok(()) }
    #[scpi(cmd = "TRIGger:IN_A")]
    async fn trig_in_a(&mut self) -> Result<(), Error> { self.call("TRIG:IN_A".into()); Ok(()) }
    #[scpi(cmd = "TRIGger:INPut")]
    async fn trig_inp(&mut self) -> Result<(), Error> { self.call("TRIG:INP".into()); Ok(()) }
    #[scpi(cmd = "VOLTage:RANGe?")]
    async fn volt_rang(&mut self) -> Result<u8, Error> { self.call("VOLT:RANG?".into()); Ok(1) }
    #[scpi(cmd = "CURRent:RANGe?")]
    async fn curr_rang(&mut self) -> Result<u8, Error> { self.call("CURR:RANG?".into()); Ok(2) }
    #[scpi(cmd = "VOLTage:LEVel?")]
    async fn volt_lev(&mut self) -> Result<u8, Error> { self.call("VOLT:LEV?".into()); Ok(3) }
    #[scpi(cmd = "CURRent:LEVel?")]
    async fn curr_lev(&mut self) -> Result<u8, Error> { self.call("CURR:LEV?".into()); Ok(4) }
    #[scpi(cmd = "TEMPerature:VALue?")]
    async fn temp_val(&mut self) -> Result<u8, Error> { self.call("TEMP:VAL?".into()); Ok(5) }
    #[scpi(cmd = "TEMPlate:NAME?")]
    async fn templ_name(&mut self) -> Result<u8, Error> { self.call("TEMPL:NAME?".into()); Ok(6) }
    #[scpi(cmd = "CONFigure:TEN")]
    #[allow(clippy::too_many_arguments)]
    async fn ten(&mut self, a: u8, b: u8, c: u8, d: u8, e: u8, f: u8, g: u8, h: u8, i: u8, j: u8) -> Result<(), Error> {
        self.call(format!("CONF:TEN({a},{b},{c},{d},{e},{f},{g},{h},{i},{j})")); Ok(())
    }
    #[scpi(cmd = "MATH:MULTiplyFloat?")]
    async fn multf(&mut self, a: f64, b: f64) -> Result<f64, Error> { self.call(format!("MATH:MULTF?({:016x},{:016x})", a.to_bits(), b.to_bits())); Ok(a * b) }
    #[scpi(cmd = "INPut2:DIG_IO:TeST")]
    async fn in2(&mut self, v: u8) -> Result<(), Error> { self.call(format!("INP2:DIG_IO:TST({v})")); Ok(()) }
    #[scpi(cmd = "ERRor:RAISe")]
    async fn raise(&mut self, n: i16) -> Result<(), Error> {
        self.call(format!("ERR:RAIS({n})"));
        Err(ALL_ERRORS.iter().copied().find(|e| e.number() == n).unwrap_or(Error::Custom(n, "custom")))
    }
    #[scpi(cmd = "FREQ:STARt")]
    async fn freq_start(&mut self) -> Result<(), Error> { self.call("FREQ:STAR".into()); Ok(()) }
    #[scpi(cmd = "FREQuency:STOP")]
    async fn freq_stop(&mut self) -> Result<(), Error> { self.call("FREQ:STOP".into()); Ok(()) }
    #[scpi(cmd = "MATH:ECHO?")]
    async fn echo(&mut self, v: u64) -> Result<u64, Error> { self.call(format!("MATH:ECHO?({v})")); Ok(v) }
    #[scpi(cmd = "ERRor:VALue?")]
    async fn err_value(&mut self, n: i16) -> Result<Error, Error> {
        self.call(format!("ERR:VAL?({n})"));
        Ok(ALL_ERRORS.iter().copied().find(|e| e.number() == n).unwrap_or(Error::Custom(n, "custom")))
    }
    #[scpi(cmd = "[SOURce]:POWer")]
    async fn power(&mut self, v: u32) -> Result<(), Error> { self.call(format!("SOUR:POW({v})")); Ok(()) }
    #[scpi(cmd = "SOURce:POWer?")]
    async fn power_q(&mut self) -> Result<u8, Error> { self.call("SOUR:POW?".into()); Ok(7) }
    #[scpi(cmd = "TRIGger:[SEQuence]:DELay")]
    async fn delay(&mut self, v: u8) -> Result<(), Error> { self.call(format!("TRIG:SEQ:DEL({v})")); Ok(()) }
    #[scpi(cmd = "TRIGger:DELay?")]
    async fn delay_q(&mut self) -> Result<u8, Error> { self.call("TRIG:DEL?".into()); Ok(8) }
    #[scpi(cmd = "MEASure:NOTHing?")]
    async fn nothing(&mut self) -> Result<(), Error> { self.call("MEAS:NOTH?".into()); Ok(()) }
    #[scpi(cmd = "CALibration:TEMPeratureOffset")]
    async fn cal_off(&mut self, v: u8) -> Result<(), Error> { self.call(format!("CAL:TEMPO({v})")); Ok(()) }
    #[scpi(cmd = "MATH:SIZE?")]
    async fn size(&mut self, a: usize, b: isize) -> Result<(usize, isize), Error> { self.call(format!("MATH:SIZE?({a},{b})")); Ok((a, b)) }
}
}
pub use $m::$name;
} }
device!(dev_logged, Dev, LogQueue, |log: Log| LogQueue { inner: StaticErrorQueue::new(), log });
device!(dev_raw, DevRaw, StaticErrorQueue<QCAP>, |_log: Log| StaticErrorQueue::new());
// the same with the crate's queue at capacities 1, 2 and 5 (C09: "never holds more than its capacity", for every capacity)
device!(dev_raw1, DevRaw1, StaticErrorQueue<1>, |_log: Log| StaticErrorQueue::new());
device!(dev_raw2, DevRaw2, StaticErrorQueue<2>, |_log: Log| StaticErrorQueue::new());
device!(dev_raw5, DevRaw5, StaticErrorQueue<5>, |_log: Log| StaticErrorQueue::new());
