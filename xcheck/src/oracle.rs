//! Executable transcription of the specification the contracts in /verif/spec are written against.
//!
//! Every function here is a line-by-line transcription of the spec function of the same name in
//!   spec/grammar.vrs (sp_*), spec/run_model.vrs (spec_execute, spec_run), spec/process_model.vrs (feed_byte, feed),
//!   spec/intlit.vrs (spec_int_lit), spec/by_contract_value.vrs (conv_*), spec/encode.vrs (dec_int, enc_str, ...)
//! with `Seq<u8>` as `&[u8]` / `Vec<u8>` and `nat` as `usize`. It is NOT derived from the code under test: the
//! command tree is built here from the declarations by the C01 rule (short form = declared spelling without its
//! lower-case letters, long form = full spelling, optional nodes present or omitted), not taken from the macro.
//! Don't-care points of the spec stay don't-care: which error number a *syntactically* rejected unit reports
//! (`soft_err` is uninterpreted in the spec) is `Exp::Any`.
//!
//! Trust: this file is a transcription by hand. On the unchanged tree Verus proves code == spec for all inputs and the
//! bounded comparison shows code == oracle on every enumerated input, hence oracle == spec on those inputs; a later
//! disagreement code != oracle on one of those inputs is therefore a disagreement code != spec.

#[derive(Clone, Copy, Debug, PartialEq)]
pub enum PK { Soft, Fatal, Inc }
pub type PR<T> = Result<(usize, T), PK>;

pub fn is_ws(b: u8) -> bool { b <= 9 || (11 <= b && b <= 32) }
pub fn is_digit(b: u8) -> bool { (48..=57).contains(&b) }
pub fn is_alpha(b: u8) -> bool { (65..=90).contains(&b) || (97..=122).contains(&b) }
pub fn is_mnem_tail(b: u8) -> bool { is_digit(b) || is_alpha(b) || b == 95 }
pub fn is_hex(b: u8) -> bool { is_digit(b) || (65..=70).contains(&b) || (97..=102).contains(&b) }
pub fn is_bin(b: u8) -> bool { b == 48 || b == 49 }
pub fn is_oct(b: u8) -> bool { (48..56).contains(&b) }
pub fn is_utf8(s: &[u8]) -> bool { std::str::from_utf8(s).is_ok() }

pub fn run_len(s: &[u8], p: &dyn Fn(u8) -> bool) -> usize {
    let mut n = 0;
    while n < s.len() && p(s[n]) { n += 1; }
    n
}
pub fn sp_satisfy(s: &[u8], p: &dyn Fn(u8) -> bool) -> PR<u8> {
    if s.is_empty() { Err(PK::Inc) } else if p(s[0]) { Ok((1, s[0])) } else { Err(PK::Soft) }
}
pub fn sp_tag(s: &[u8], b: u8) -> PR<u8> { sp_satisfy(s, &|x| x == b) }
pub fn sp_ws(s: &[u8]) -> PR<()> {
    if s.is_empty() { Err(PK::Inc) } else if run_len(s, &is_ws) == 0 { Err(PK::Soft) } else { Ok((run_len(s, &is_ws), ())) }
}
pub fn skip_ws(s: &[u8]) -> usize { run_len(s, &is_ws) }
pub fn sp_lexeme(s: &[u8], first: &dyn Fn(u8) -> bool, rest: &dyn Fn(u8) -> bool) -> PR<Vec<u8>> {
    if s.is_empty() { Err(PK::Inc) }
    else if !first(s[0]) { Err(PK::Soft) }
    else { let n = 1 + run_len(&s[1..], rest); Ok((n, s[..n].to_vec())) }
}
pub fn sp_digits(s: &[u8]) -> PR<Vec<u8>> { sp_lexeme(s, &is_digit, &is_digit) }
pub fn sp_mnemonic(s: &[u8]) -> PR<Vec<u8>> { sp_lexeme(s, &is_alpha, &is_mnem_tail) }
pub fn sp_sign(s: &[u8]) -> PR<u8> {
    if s.is_empty() { Err(PK::Inc) } else if s[0] == 43 || s[0] == 45 { Ok((1, s[0])) } else { Err(PK::Soft) }
}
pub fn opt_n<T>(r: &PR<T>) -> usize { match r { Ok((n, _)) => *n, Err(_) => 0 } }

#[derive(Clone, Debug, PartialEq)]
pub enum SValue { String(Vec<u8>), Characters(Vec<u8>), Decimal(Vec<u8>), Hexadecimal(Vec<u8>), Binary(Vec<u8>), Octal(Vec<u8>), Arbitrary(Vec<u8>) }

pub fn sp_characters(s: &[u8]) -> PR<SValue> {
    let (n, v) = sp_mnemonic(s)?;
    if is_utf8(&v) { Ok((n, SValue::Characters(v))) } else { Err(PK::Soft) }
}
pub fn sp_mantissa(s: &[u8]) -> PR<Vec<u8>> {
    let n1 = opt_n(&sp_sign(s));
    let d1 = sp_digits(&s[n1..]);
    let n2 = opt_n(&d1);
    let n3 = opt_n(&sp_tag(&s[n1 + n2..], 46));
    let s3 = &s[n1 + n2 + n3..];
    if d1.is_ok() {
        let n = n1 + n2 + n3 + opt_n(&sp_digits(s3));
        Ok((n, s[..n].to_vec()))
    } else {
        let (n4, _) = sp_digits(s3)?;
        Ok((n1 + n2 + n3 + n4, s[..n1 + n2 + n3 + n4].to_vec()))
    }
}
pub fn sp_exponent(s: &[u8]) -> PR<Vec<u8>> {
    if s.is_empty() { Err(PK::Inc) }
    else if !(s[0] == 69 || s[0] == 101) { Err(PK::Soft) }
    else {
        let n2 = opt_n(&sp_sign(&s[1..]));
        let (n3, _) = sp_digits(&s[1 + n2..])?;
        Ok((1 + n2 + n3, s[..1 + n2 + n3].to_vec()))
    }
}
pub fn sp_decimal(s: &[u8]) -> PR<SValue> {
    let (n1, _) = sp_mantissa(s)?;
    let n = n1 + opt_n(&sp_exponent(&s[n1..]));
    if is_utf8(&s[..n]) { Ok((n, SValue::Decimal(s[..n].to_vec()))) } else { Err(PK::Soft) }
}
pub fn sp_radix(s: &[u8], upper: u8, lower: u8, p: &dyn Fn(u8) -> bool) -> PR<Vec<u8>> {
    if s.is_empty() { Err(PK::Inc) }
    else if s[0] != 35 { Err(PK::Soft) }
    else if s.len() == 1 { Err(PK::Inc) }
    else if !(s[1] == upper || s[1] == lower) { Err(PK::Soft) }
    else if s.len() == 2 { Err(PK::Inc) }
    else if !p(s[2]) { Err(PK::Soft) }
    else {
        let n = 3 + run_len(&s[3..], p);
        if is_utf8(&s[2..n]) { Ok((n, s[2..n].to_vec())) } else { Err(PK::Soft) }
    }
}
pub fn sp_hex(s: &[u8]) -> PR<SValue> { sp_radix(s, 72, 104, &is_hex).map(|(n, v)| (n, SValue::Hexadecimal(v))) }
pub fn sp_bin(s: &[u8]) -> PR<SValue> { sp_radix(s, 66, 98, &is_bin).map(|(n, v)| (n, SValue::Binary(v))) }
pub fn sp_oct(s: &[u8]) -> PR<SValue> { sp_radix(s, 81, 113, &is_oct).map(|(n, v)| (n, SValue::Octal(v))) }
pub fn sp_quoted(s: &[u8], q: u8) -> PR<SValue> {
    if s.is_empty() { Err(PK::Inc) }
    else if s[0] != q { Err(PK::Soft) }
    else {
        let k = run_len(&s[1..], &|b| b != q);
        if 1 + k >= s.len() { Err(PK::Inc) }
        else if is_utf8(&s[1..1 + k]) { Ok((k + 2, SValue::String(s[1..1 + k].to_vec()))) }
        else { Err(PK::Soft) }
    }
}
/// `spec_block_len` is uninterpreted in the spec ("the value std's parser gives for the decimal length field");
/// the field consists of 1..=8 bytes; the property text (C03: "definite-length blocks byte for byte") fixes the
/// meaning for digit strings, anything else is not a length
pub fn spec_block_len(field: &[u8]) -> Option<usize> {
    let body = if field.first() == Some(&43) { &field[1..] } else { field };   // std accepts a leading '+'
    if body.is_empty() || !body.iter().all(|b| is_digit(*b)) { return None; }
    let mut v: usize = 0;
    for b in body { v = v * 10 + (*b - 48) as usize; }
    Some(v)
}
pub fn sp_block(s: &[u8]) -> PR<SValue> {
    if s.is_empty() { Err(PK::Inc) }
    else if s[0] != 35 { Err(PK::Soft) }
    else if s.len() == 1 { Err(PK::Inc) }
    else if !(49 <= s[1] && s[1] < 57) { Err(PK::Soft) }
    else {
        let d = (s[1] - 48) as usize;
        if s.len() - 2 < d { Err(PK::Inc) }
        else {
            let field = &s[2..2 + d];
            if !is_utf8(field) { Err(PK::Soft) }
            else { match spec_block_len(field) {
                None => Err(PK::Soft),
                Some(count) => if s.len() - 2 - d < count { Err(PK::Inc) } else { Ok((2 + d + count, SValue::Arbitrary(s[2 + d..2 + d + count].to_vec()))) },
            } }
        }
    }
}

// ---------------- command tree (C01), built from the declarations ----------------
pub struct ONode { pub children: Vec<(Vec<u8>, usize)>, pub command: Option<usize>, pub query: Option<usize> }
pub struct OTree { pub nodes: Vec<ONode> }

/// every header spelling C01 allows for one declaration: per node short or long form, optional nodes present or omitted
pub fn spellings(cmd: &str) -> (Vec<Vec<Vec<u8>>>, bool) {
    let q = cmd.ends_with('?');
    let body = if q { &cmd[..cmd.len() - 1] } else { cmd };
    let mut parts: Vec<(bool, Vec<u8>, Vec<u8>)> = Vec::new();
    for p in body.split(':') {
        let p = p.trim();
        if p.is_empty() { continue; }
        let opt = p.starts_with('[') && p.ends_with(']');
        let p = if opt { &p[1..p.len() - 1] } else { p };
        let short: Vec<u8> = p.bytes().filter(|c| !c.is_ascii_lowercase()).map(|c| c.to_ascii_uppercase()).collect();
        let long: Vec<u8> = p.bytes().map(|c| c.to_ascii_uppercase()).collect();
        parts.push((opt, short, long));
    }
    let mut out: Vec<Vec<Vec<u8>>> = vec![vec![]];
    for (opt, s, l) in parts {
        let mut next = Vec::new();
        for pre in &out {
            let mut a = pre.clone(); a.push(s.clone()); next.push(a);
            if l != s { let mut b = pre.clone(); b.push(l.clone()); next.push(b); }
            if opt { next.push(pre.clone()); }
        }
        out = next;
    }
    (out, q)
}
impl OTree {
    pub fn build(decls: &[&str]) -> OTree {
        let mut t = OTree { nodes: vec![ONode { children: vec![], command: None, query: None }] };
        for (id, d) in decls.iter().enumerate() {
            let (sp, q) = spellings(d);
            for path in sp {
                let mut n = 0usize;
                for key in path {
                    let found = t.nodes[n].children.iter().find(|(k, _)| *k == key).map(|(_, j)| *j);
                    n = match found { Some(j) => j, None => {
                        t.nodes.push(ONode { children: vec![], command: None, query: None });
                        let j = t.nodes.len() - 1;
                        t.nodes[n].children.push((key, j));
                        j
                    } };
                }
                let slot = if q { &mut t.nodes[n].query } else { &mut t.nodes[n].command };
                assert!(slot.is_none() || *slot == Some(id), "interface T2 is ambiguous by construction: {d}");
                *slot = Some(id);
            }
        }
        t
    }
    pub fn lower(b: u8) -> u8 { if (65..=90).contains(&b) { b + 32 } else { b } }
    pub fn eq_ic(a: &[u8], b: &[u8]) -> bool { a.len() == b.len() && a.iter().zip(b).all(|(x, y)| Self::lower(*x) == Self::lower(*y)) }
    pub fn child_of(&self, n: usize, name: &[u8]) -> Option<usize> {
        self.nodes[n].children.iter().find(|(k, _)| Self::eq_ic(k, name)).map(|(_, j)| *j)
    }
}

pub fn sp_sep(s: &[u8], sep: u8) -> PR<()> {
    let n1 = skip_ws(s);
    if n1 < s.len() && s[n1] == sep { Ok((n1 + 1 + skip_ws(&s[n1 + 1..]), ())) } else { Err(PK::Soft) }
}
pub type NodePath = (usize, Option<usize>);
pub fn sp_common(t: &OTree, root: usize, s: &[u8]) -> PR<NodePath> {
    if s.is_empty() || s[0] != 42 { return Err(PK::Fatal); }
    let (n, _) = sp_mnemonic(&s[1..])?;
    if !is_utf8(&s[..n + 1]) { return Err(PK::Soft); }
    match t.child_of(root, &s[..n + 1]) { None => Err(PK::Fatal), Some(node) => Ok((n + 1, (node, None))) }
}
pub fn sp_compound_tail(t: &OTree, node: usize, parent: usize, s: &[u8], acc: usize) -> PR<NodePath> {
    match sp_sep(s, 58) {
        Err(_) => Ok((acc, (node, Some(parent)))),
        Ok((n1, _)) => {
            let (n2, name) = sp_mnemonic(&s[n1..])?;
            if !is_utf8(&name) { return Err(PK::Soft); }
            match t.child_of(node, &name) {
                None => Err(PK::Fatal),
                Some(c) => sp_compound_tail(t, c, node, &s[n1 + n2..], acc + n1 + n2),
            }
        },
    }
}
pub fn sp_compound(t: &OTree, root: usize, hdr: usize, s: &[u8]) -> PR<NodePath> {
    let lead = sp_sep(s, 58);
    let n0 = opt_n(&lead);
    let start = if lead.is_ok() { root } else { hdr };
    let (n1, name) = sp_mnemonic(&s[n0..])?;
    if !is_utf8(&name) { return Err(PK::Soft); }
    match t.child_of(start, &name) {
        None => Err(PK::Fatal),
        Some(node) => sp_compound_tail(t, node, start, &s[n0 + n1..], n0 + n1),
    }
}
pub fn sp_header(t: &OTree, root: usize, hdr: usize, s: &[u8]) -> PR<NodePath> {
    match sp_compound(t, root, hdr, s) { Ok(r) => Ok(r), Err(_) => sp_common(t, root, s) }
}
pub fn sp_alt(a: PR<SValue>, b: &dyn Fn() -> PR<SValue>) -> PR<SValue> {
    match a { Ok(_) => a, Err(PK::Inc) => a, Err(_) => b() }
}
pub fn sp_argument(s: &[u8]) -> PR<SValue> {
    sp_alt(sp_characters(s), &|| sp_alt(sp_decimal(s), &|| sp_alt(sp_hex(s), &|| sp_alt(sp_bin(s), &|| sp_alt(sp_oct(s),
        &|| sp_alt(sp_quoted(s, 39), &|| sp_alt(sp_quoted(s, 34), &|| sp_block(s))))))))
}
pub const SPEC_MAX_ARGS: usize = 10;
pub fn sp_args_tail(s: &[u8], acc: usize, vals: Vec<SValue>) -> PR<Vec<SValue>> {
    match sp_sep(s, 44) {
        Err(_) => Ok((acc, vals)),
        Ok((n1, _)) => {
            let (n2, val) = sp_argument(&s[n1..])?;
            if vals.len() >= SPEC_MAX_ARGS { return Err(PK::Soft); }
            let mut v = vals; v.push(val);
            sp_args_tail(&s[n1 + n2..], acc + n1 + n2, v)
        },
    }
}
pub fn sp_arguments(s: &[u8]) -> PR<Vec<SValue>> {
    let (n, v) = sp_argument(s)?;
    sp_args_tail(&s[n..], n, vec![v])
}
#[derive(Clone, Debug)]
pub struct SCall { pub node: usize, pub path: Option<usize>, pub query: bool, pub args: Vec<SValue>, pub terminated: bool }
pub fn sp_unit_end(s: &[u8]) -> PR<bool> {
    let n = skip_ws(s);
    if n >= s.len() { Err(PK::Inc) } else if s[n] == 10 { Ok((n + 1, true)) } else if s[n] == 59 { Ok((n + 1, false)) } else { Err(PK::Soft) }
}
pub fn sp_unit_finish(np: NodePath, query: bool, args: Vec<SValue>, t: &[u8], acc: usize) -> PR<Option<SCall>> {
    let (n, terminated) = sp_unit_end(t)?;
    Ok((acc + n, Some(SCall { node: np.0, path: np.1, query, args, terminated })))
}
pub fn sp_unit(t: &OTree, root: usize, hdr: usize, s: &[u8]) -> PR<Option<SCall>> {
    let n0 = skip_ws(s);
    let s0 = &s[n0..];
    if !s0.is_empty() && s0[0] == 10 { return Ok((n0 + 1, None)); }
    let (n1, np) = sp_header(t, root, hdr, s0)?;
    let s1 = &s0[n1..];
    let query = !s1.is_empty() && s1[0] == 63;
    let n2 = if query { 1 } else { 0 };
    let s2 = &s1[n2..];
    match sp_ws(s2) {
        Err(PK::Soft) => sp_unit_finish(np, query, vec![], s2, n0 + n1 + n2),
        Err(k) => Err(k),
        Ok((n3, _)) => {
            let s3 = &s2[n3..];
            match sp_arguments(s3) {
                Ok((n4, vals)) => sp_unit_finish(np, query, vals, &s3[n4..], n0 + n1 + n2 + n3 + n4),
                Err(PK::Soft) => sp_unit_finish(np, query, vec![], s3, n0 + n1 + n2 + n3),
                Err(k) => Err(k),
            }
        },
    }
}

// ---------------- C03: conversions ----------------
pub fn digit_val(b: u8) -> u32 {
    if (48..=57).contains(&b) { (b - 48) as u32 } else if (97..=122).contains(&b) { (b - 97 + 10) as u32 } else if (65..=90).contains(&b) { (b - 65 + 10) as u32 } else { 99 }
}
/// exact value; None if a byte is not a digit of the radix (values beyond i128 are "out of every range": saturate)
pub fn digits_val(s: &[u8], radix: u32) -> Option<i128> {
    let mut v: i128 = 0;
    for b in s {
        if digit_val(*b) >= radix { return None; }
        v = v.saturating_mul(radix as i128).saturating_add(digit_val(*b) as i128);
    }
    Some(v)
}
pub fn spec_int_lit(s: &[u8], radix: u32, min: i128, max: i128) -> Option<i128> {
    if s.is_empty() { return None; }
    let neg = s[0] == 45 && min < 0;
    let body = if s[0] == 43 || neg { &s[1..] } else { s };
    if body.is_empty() { return None; }
    let v = digits_val(body, radix)?;
    let x = if neg { -v } else { v };
    if min <= x && x <= max { Some(x) } else { None }
}
#[derive(Clone, Copy, Debug, PartialEq)]
pub enum PT { U8, I8, U16, I16, U32, I32, U64, I64, Bool, Str, Bytes, F32, F64 }
#[derive(Clone, Debug, PartialEq)]
pub enum TArg { Int(i128), Bool(bool), Str(Vec<u8>), Bytes(Vec<u8>), F32(f32), F64(f64) }
pub const E_DATA_TYPE: i16 = -104;
pub const E_NUMERIC: i16 = -120;
pub const E_ILLEGAL_PARAM: i16 = -224;
pub const E_UNDEFINED_HEADER: i16 = -113;
pub const E_QUEUE_OVERFLOW: i16 = -350;

pub fn conv(pt: PT, v: &SValue) -> Result<TArg, i16> {
    let int = |min: i128, max: i128| -> Result<TArg, i16> {
        let lit = match v { SValue::Decimal(d) => Some((d, 10)), SValue::Hexadecimal(d) => Some((d, 16)), SValue::Binary(d) => Some((d, 2)), SValue::Octal(d) => Some((d, 8)), _ => None };
        match lit { None => Err(E_DATA_TYPE), Some((s, r)) => spec_int_lit(s, r, min, max).map(TArg::Int).ok_or(E_NUMERIC) }
    };
    match pt {
        PT::U8 => int(0, u8::MAX as i128), PT::I8 => int(i8::MIN as i128, i8::MAX as i128),
        PT::U16 => int(0, u16::MAX as i128), PT::I16 => int(i16::MIN as i128, i16::MAX as i128),
        PT::U32 => int(0, u32::MAX as i128), PT::I32 => int(i32::MIN as i128, i32::MAX as i128),
        PT::U64 => int(0, u64::MAX as i128), PT::I64 => int(i64::MIN as i128, i64::MAX as i128),
        PT::Bool => match v {
            SValue::Characters(s) => if s == b"ON" || s == b"on" || s == b"TRUE" || s == b"true" { Ok(TArg::Bool(true)) }
                else if s == b"OFF" || s == b"off" || s == b"FALSE" || s == b"false" { Ok(TArg::Bool(false)) } else { Err(E_ILLEGAL_PARAM) },
            SValue::Decimal(s) => if s == b"1" { Ok(TArg::Bool(true)) } else if s == b"0" { Ok(TArg::Bool(false)) } else { Err(E_ILLEGAL_PARAM) },
            _ => Err(E_ILLEGAL_PARAM),
        },
        PT::Str => match v { SValue::String(d) => Ok(TArg::Str(d.clone())), _ => Err(E_DATA_TYPE) },
        PT::Bytes => match v { SValue::Arbitrary(d) => Ok(TArg::Bytes(d.clone())), _ => Err(E_DATA_TYPE) },
        // "decimal reals correctly rounded": std's parser is the reference for correct rounding (trusted)
        PT::F32 => match v { SValue::Decimal(d) => std::str::from_utf8(d).ok().and_then(|s| s.parse::<f32>().ok()).map(TArg::F32).ok_or(E_NUMERIC), _ => Err(E_DATA_TYPE) },
        PT::F64 => match v { SValue::Decimal(d) => std::str::from_utf8(d).ok().and_then(|s| s.parse::<f64>().ok()).map(TArg::F64).ok_or(E_NUMERIC), _ => Err(E_DATA_TYPE) },
    }
}

// ---------------- C04: response data ----------------
#[derive(Clone, Debug, PartialEq)]
pub enum Resp { ErrVal(i16), Unit, Int(i128), Bool(bool), Str(Vec<u8>), Chars(Vec<u8>), Block(Vec<u8>), F32(f32), F64(f64), Tuple(Vec<Resp>), List(Vec<Resp>) }
/// expected output: literal bytes, or "a decimal real that decodes to exactly this value", or a flush of the writer
#[derive(Clone, Debug, PartialEq)]
pub enum Tok { Bytes(Vec<u8>), F32(f32), F64(f64), Flush, /// `<number>,"<description>"` of a queue entry that meets the expectation
    QErr(Exp) }
pub fn dec_int(v: i128) -> Vec<u8> { v.to_string().into_bytes() }
pub fn enc_str(s: &[u8]) -> Vec<u8> {
    let mut o = vec![34u8];
    for b in s { if *b == 34 { o.push(34); o.push(34); } else { o.push(*b); } }
    o.push(34);
    o
}
pub fn enc_block(p: &[u8]) -> Vec<u8> {
    if p.is_empty() { return b"#10".to_vec(); }
    let l = p.len().to_string();
    let mut o = vec![35u8];
    o.extend(l.len().to_string().bytes()); o.extend(l.bytes()); o.extend(p);
    o
}
pub fn push_bytes(o: &mut Vec<Tok>, b: &[u8]) {
    if let Some(Tok::Bytes(v)) = o.last_mut() { v.extend_from_slice(b); } else { o.push(Tok::Bytes(b.to_vec())); }
}
pub fn enc(r: &Resp, o: &mut Vec<Tok>) {
    match r {
        Resp::Unit => {},
        Resp::ErrVal(n) => o.push(Tok::QErr(Exp::Exact(*n))),
        Resp::Int(v) => push_bytes(o, &dec_int(*v)),
        Resp::Bool(b) => push_bytes(o, if *b { b"1" } else { b"0" }),
        Resp::Str(s) => push_bytes(o, &enc_str(s)),
        Resp::Chars(s) => push_bytes(o, s),
        Resp::Block(p) => push_bytes(o, &enc_block(p)),
        Resp::F32(v) => if v.is_nan() { push_bytes(o, b"9.91E+37") } else if v.is_infinite() { push_bytes(o, if *v < 0.0 { b"-9.9E+37" } else { b"9.9E+37" }) } else { o.push(Tok::F32(*v)) },
        Resp::F64(v) => if v.is_nan() { push_bytes(o, b"9.91E+37") } else if v.is_infinite() { push_bytes(o, if *v < 0.0 { b"-9.9E+37" } else { b"9.9E+37" }) } else { o.push(Tok::F64(*v)) },
        Resp::Tuple(xs) | Resp::List(xs) => for (i, x) in xs.iter().enumerate() { if i > 0 { push_bytes(o, b","); } enc(x, o); },
    }
}

// ---------------- interface T2: declarations and handler behaviour (mirrors xcheck/src/dev.rs) ----------------
pub const DECLS: &[&str] = &[
    "*IDN?", "*RST", "SOURce:LEVel", "SOURce:LEVel?", "SOURce:RANGe", "LEVel?", "SOURce:[SUB]:MODE", "MATH:SUM?", "MATH:MULTiply?",
    "DISPlay:TEXT", "DISPlay:TEXT?", "DATA:BLOCk", "DATA:BLOCk?", "MEASure:DOUBle?", "MEASure:SINGle?", "MEASure:PAIR?", "MEASure:LIST?",
    "MEASure:CHARacter?", "MEASure:SPECial?", "FAIL", "FAILQ?", "BIG?", "HEX", "MEASure:TRIple?", "SOURce:LEVel:STEP",
    "CONFigure:SOURce:LEVel?", "WIDE",
    "MEASure:NORMalize", "TRIGger:IN_A", "TRIGger:INPut", "VOLTage:RANGe?", "CURRent:RANGe?", "VOLTage:LEVel?", "CURRent:LEVel?", "TEMPerature:VALue?",
    "TEMPlate:NAME?", "CONFigure:TEN", "MATH:MULTiplyFloat?", "INPut2:DIG_IO:TeST", "ERRor:RAISe", "FREQ:STARt", "FREQuency:STOP", "MATH:ECHO?", "ERRor:VALue?", "[SOURce]:POWer", "SOURce:POWer?", "TRIGger:[SEQuence]:DELay", "TRIGger:DELay?", "MEASure:NOTHing?", "CALibration:TEMPeratureOffset", "MATH:SIZE?",
    // requested in the attribute: StandardCommands, ErrorCommands (C01: exist exactly when requested)
    "SYSTem:VERSion?", "SYSTem:ERRor:[NEXT]?", "SYSTem:ERRor:COUNt?",
];
pub fn params(id: usize) -> &'static [PT] {
    match id {
        2 => &[PT::U8], 4 => &[PT::I16], 6 => &[PT::Bool], 7 => &[PT::U32, PT::U32, PT::U32], 8 => &[PT::I64, PT::I64], 9 => &[PT::Str],
        11 => &[PT::Bytes], 13 => &[PT::F64], 14 => &[PT::F32], 18 => &[PT::U8], 22 => &[PT::U16], 23 => &[PT::I8, PT::Str, PT::Bool],
        24 => &[PT::U8], 26 => &[PT::I32, PT::U64, PT::I64],
        36 => &[PT::U8; 10], 37 => &[PT::F64, PT::F64], 38 => &[PT::U8], 39 => &[PT::I16], 42 => &[PT::U64], 43 => &[PT::I16], 44 => &[PT::U32], 46 => &[PT::U8], 49 => &[PT::U8], 50 => &[PT::U64, PT::I64],
        _ => &[],
    }
}
/// expectation for one reported error
#[derive(Clone, Debug, PartialEq)]
pub enum Exp { Exact(i16), AnyOf(Vec<i16>), Any }
#[derive(Clone, Debug, PartialEq)]
pub enum OEv { Call(String), Err(Exp) }

pub const QCAP: usize = 3;
pub const ID_VERS: usize = 51;
pub const ID_ERR_NEXT: usize = 52;
pub const ID_ERR_COUNT: usize = 53;
#[derive(Clone, Debug)]
pub struct ODev { pub level: u8, pub text: Vec<u8>, pub block: Vec<u8>, pub queue: Vec<Exp>, pub qcap: usize }
impl ODev { pub fn new() -> ODev { ODev { level: 0, text: vec![], block: vec![], queue: vec![], qcap: QCAP } } }
pub fn hexs(b: &[u8]) -> String { b.iter().map(|x| format!("{x:02x}")).collect() }
fn int(a: &TArg) -> i128 { if let TArg::Int(v) = a { *v } else { unreachable!() } }

/// description of a standard error: the words of its name (SCPI-1999 vol. 2, 21.8), compared ignoring case
pub fn description(code: i16) -> Option<&'static str> {
    Some(match code {
        -100 => "command error", -101 => "invalid character", -102 => "syntax error", -103 => "invalid separator", -104 => "data type error",
        -105 => "get not allowed", -108 => "parameter not allowed", -109 => "missing parameter", -110 => "command header error",
        -111 => "header separator error", -112 => "program mnemonic too long", -113 => "undefined header", -114 => "header suffix out of range",
        -115 => "unexpected number of parameters", -120 => "numeric data error", -121 => "invalid character in number", -123 => "exponent too large",
        -124 => "too many digits", -128 => "numeric data not allowed", -130 => "suffix error", -131 => "invalid suffix", -134 => "suffix too long",
        -138 => "suffix not allowed", -140 => "character data error", -141 => "invalid character data", -144 => "character data too long",
        -148 => "character not allowed", -150 => "string data error", -151 => "invalid string data", -158 => "string data not allowed",
        -160 => "block data error", -161 => "invalid block data", -168 => "block data not allowed", -170 => "expression error",
        -171 => "invalid expression", -178 => "expression data not allowed", -200 => "execution error", -201 => "invalid while in local",
        -203 => "command protected", -210 => "trigger error", -220 => "parameter error", -221 => "settings conflict", -222 => "data out of range",
        -223 => "too much data", -224 => "illegal parameter value", -225 => "out of memory", -226 => "lists not same length",
        -230 => "data corrupt or stale", -240 => "hardware error", -300 => "device specific error", -310 => "system error", -320 => "storage fault",
        -330 => "self test failed", -340 => "calibration failed", -350 => "queue overflow", -360 => "communication error",
        -363 => "input buffer overrun", -365 => "timeout error", -400 => "query error",
        _ => "custom",       // interface T2 raises every non-standard number as Custom(n, "custom")
    })
}

/// the handler of declaration `id` on converted arguments: the call it logs, and its result
pub fn handler(d: &mut ODev, id: usize, a: &[TArg]) -> (String, Result<Resp, i16>) {
    match id {
        0 => ("*IDN?".into(), Ok(Resp::Str(b"verif,xcheck,0,1.0".to_vec()))),
        1 => { d.level = 0; ("*RST".into(), Ok(Resp::Unit)) },
        2 => { d.level = int(&a[0]) as u8; (format!("SOUR:LEV({})", int(&a[0])), Ok(Resp::Unit)) },
        3 => ("SOUR:LEV?".into(), Ok(Resp::Int(d.level as i128))),
        4 => (format!("SOUR:RANG({})", int(&a[0])), Ok(Resp::Unit)),
        5 => ("LEV?".into(), Ok(Resp::Int(-(d.level as i128) - 1))),
        6 => (format!("SOUR:SUB:MODE({})", if let TArg::Bool(b) = a[0] { b } else { unreachable!() }), Ok(Resp::Unit)),
        7 => (format!("MATH:SUM?({},{},{})", int(&a[0]), int(&a[1]), int(&a[2])), Ok(Resp::Int(int(&a[0]) + int(&a[1]) + int(&a[2])))),
        8 => (format!("MATH:MULT?({},{})", int(&a[0]), int(&a[1])), Ok(Resp::Int((int(&a[0]) as i64).wrapping_mul(int(&a[1]) as i64) as i128))),
        9 => { let s = if let TArg::Str(s) = &a[0] { s.clone() } else { unreachable!() }; d.text = s.clone(); (format!("DISP:TEXT({})", hexs(&s)), Ok(Resp::Unit)) },
        10 => ("DISP:TEXT?".into(), Ok(Resp::Str(d.text.clone()))),
        11 => { let s = if let TArg::Bytes(s) = &a[0] { s.clone() } else { unreachable!() }; d.block = s.clone(); (format!("DATA:BLOC({})", hexs(&s)), Ok(Resp::Unit)) },
        12 => ("DATA:BLOC?".into(), Ok(Resp::Block(d.block.clone()))),
        13 => { let v = if let TArg::F64(v) = a[0] { v } else { unreachable!() }; (format!("MEAS:DOUB?({:016x})", v.to_bits()), Ok(Resp::F64(v))) },
        14 => { let v = if let TArg::F32(v) = a[0] { v } else { unreachable!() }; (format!("MEAS:SING?({:08x})", v.to_bits()), Ok(Resp::F32(v))) },
        15 => ("MEAS:PAIR?".into(), Ok(Resp::Tuple(vec![Resp::Int(-128), Resp::Bool(true)]))),
        16 => ("MEAS:LIST?".into(), Ok(Resp::List(vec![Resp::Int(1), Resp::Int(65535), Resp::Int(0)]))),
        17 => ("MEAS:CHAR?".into(), Ok(Resp::Chars(b"VOLT".to_vec()))),
        18 => { let k = int(&a[0]); (format!("MEAS:SPEC?({k})"), Ok(match k {
            0 => Resp::Tuple(vec![Resp::F32(f32::NAN), Resp::F64(f64::NAN)]), 1 => Resp::Tuple(vec![Resp::F32(f32::INFINITY), Resp::F64(f64::NEG_INFINITY)]),
            2 => Resp::Tuple(vec![Resp::F32(f32::MIN_POSITIVE), Resp::F64(f64::MAX)]), 4 => Resp::Tuple(vec![Resp::F32(f32::NAN), Resp::F64(f64::NAN)]), _ => Resp::Tuple(vec![Resp::F32(-0.0), Resp::F64(1e-300)]) })) },
        19 => ("FAIL".into(), Err(42)),
        20 => ("FAILQ?".into(), Err(-200)),
        21 => ("BIG?".into(), Ok(Resp::Str(b"0123456789012345678901234567890123456789".to_vec()))),
        22 => (format!("HEX({})", int(&a[0])), Ok(Resp::Unit)),
        23 => { let s = if let TArg::Str(s) = &a[1] { s.clone() } else { unreachable!() }; let on = if let TArg::Bool(b) = a[2] { b } else { unreachable!() };
                (format!("MEAS:TRI?({},{},{on})", int(&a[0]), hexs(&s)), Ok(Resp::Tuple(vec![Resp::Int(int(&a[0])), Resp::Str(s), Resp::Bool(on)]))) },
        24 => (format!("SOUR:LEV:STEP({})", int(&a[0])), Ok(Resp::Unit)),
        25 => ("CONF:SOUR:LEV?".into(), Ok(Resp::Int(99))),
        26 => (format!("WIDE({},{},{})", int(&a[0]), int(&a[1]), int(&a[2])), Ok(Resp::Unit)),
        27 => ("MEAS:NORM".into(), Ok(Resp::Unit)),
        28 => ("TRIG:IN_A".into(), Ok(Resp::Unit)),
        29 => ("TRIG:INP".into(), Ok(Resp::Unit)),
        30 => ("VOLT:RANG?".into(), Ok(Resp::Int(1))), 31 => ("CURR:RANG?".into(), Ok(Resp::Int(2))),
        32 => ("VOLT:LEV?".into(), Ok(Resp::Int(3))), 33 => ("CURR:LEV?".into(), Ok(Resp::Int(4))),
        34 => ("TEMP:VAL?".into(), Ok(Resp::Int(5))), 35 => ("TEMPL:NAME?".into(), Ok(Resp::Int(6))),
        36 => (format!("CONF:TEN({})", a.iter().map(|x| int(x).to_string()).collect::<Vec<_>>().join(",")), Ok(Resp::Unit)),
        37 => { let (x, y) = (if let TArg::F64(v) = a[0] { v } else { unreachable!() }, if let TArg::F64(v) = a[1] { v } else { unreachable!() });
                (format!("MATH:MULTF?({:016x},{:016x})", x.to_bits(), y.to_bits()), Ok(Resp::F64(x * y))) },
        38 => (format!("INP2:DIG_IO:TST({})", int(&a[0])), Ok(Resp::Unit)),
        39 => (format!("ERR:RAIS({})", int(&a[0])), Err(int(&a[0]) as i16)),
        40 => ("FREQ:STAR".into(), Ok(Resp::Unit)), 41 => ("FREQ:STOP".into(), Ok(Resp::Unit)),
        42 => (format!("MATH:ECHO?({})", int(&a[0])), Ok(Resp::Int(int(&a[0])))),
        // an Error as response data: <number>,"<description>" (usize / isize are 64 bit on the machine the replay runs on)
        43 => (format!("ERR:VAL?({})", int(&a[0])), Ok(Resp::ErrVal(int(&a[0]) as i16))),
        44 => (format!("SOUR:POW({})", int(&a[0])), Ok(Resp::Unit)),
        45 => ("SOUR:POW?".into(), Ok(Resp::Int(7))),
        46 => (format!("TRIG:SEQ:DEL({})", int(&a[0])), Ok(Resp::Unit)),
        47 => ("TRIG:DEL?".into(), Ok(Resp::Int(8))),
        48 => ("MEAS:NOTH?".into(), Ok(Resp::Unit)),      // a query without response data: the response is the terminator alone
        49 => (format!("CAL:TEMPO({})", int(&a[0])), Ok(Resp::Unit)),
        50 => (format!("MATH:SIZE?({},{})", int(&a[0]), int(&a[1])), Ok(Resp::Tuple(vec![Resp::Int(int(&a[0])), Resp::Int(int(&a[1]))]))),
        // C01: the standard commands that were requested in the attribute
        ID_VERS => ("".into(), Ok(Resp::Chars(b"1999.0".to_vec()))),
        _ => unreachable!(),
    }
}

/// observable state threaded through a run (spec RunSt): the log, the expected output, and the modelled device
#[derive(Clone, Debug)]
pub struct RunSt { pub log: Vec<OEv>, pub out: Vec<Tok>, pub dev: ODev,
    /// capacity of the response writer (None: unbounded), and whether a response did not fit (everything the writer
    /// holds afterwards, and whether later responses of the same run fit, is unspecified)
    pub wcap: Option<usize>, pub overflow: bool, pub uncertain: bool }
impl RunSt { pub fn new(wcap: Option<usize>) -> RunSt { RunSt { log: vec![], out: vec![], dev: ODev::new(), wcap, overflow: false, uncertain: false } } }
/// (least, most) bytes the expected output can have: a decimal real has 1..=340 characters, a queue entry 4..=60
pub fn toks_len(o: &[Tok]) -> (usize, usize) { let (mut lo, mut hi) = (0, 0); for t in o { match t { Tok::Bytes(b) => { lo += b.len(); hi += b.len(); }, Tok::Flush => {}, Tok::QErr(_) => { lo += 4; hi += 60; }, _ => { lo += 1; hi += 340; } } } (lo, hi) }

/// C09: an error arriving while the queue is full replaces the newest stored entry by -350
pub fn queue_push(d: &mut ODev, e: Exp) {
    if d.queue.len() < d.qcap { d.queue.push(e); } else if let Some(l) = d.queue.last_mut() { *l = Exp::Exact(E_QUEUE_OVERFLOW); }
}
pub fn log_err(st: &mut RunSt, e: Exp) { st.log.push(OEv::Err(e.clone())); queue_push(&mut st.dev, e); }

/// spec_execute + the dispatcher contract of unit generated_s1 (C01 slot selection, C03 parameter count and
/// conversions, C04 response + NL + flush); Err = the error the unit reports
pub fn spec_execute(t: &OTree, c: &SCall, st: &mut RunSt) -> Result<(), Exp> {
    let slot = if c.query { t.nodes[c.node].query } else { t.nodes[c.node].command };
    let id = match slot { None => return Err(Exp::Exact(E_UNDEFINED_HEADER)), Some(id) => id };
    let pts = params(id);
    // C03: "the number of parameters differs from the declaration": not invoked, exactly one error (number not stated)
    if c.args.len() != pts.len() { return Err(Exp::Any); }
    let conv_r: Vec<Result<TArg, i16>> = pts.iter().zip(&c.args).map(|(p, v)| conv(*p, v)).collect();
    let bad: Vec<i16> = conv_r.iter().filter_map(|r| r.as_ref().err().copied()).collect();
    if !bad.is_empty() { return Err(if bad.len() == 1 { Exp::Exact(bad[0]) } else { Exp::AnyOf(bad) }); }
    let args: Vec<TArg> = conv_r.into_iter().map(|r| r.unwrap()).collect();
    // the queue queries act on the modelled queue (C09)
    let res: Result<Resp, i16> = if id == ID_ERR_NEXT {
        Ok(Resp::Tuple(vec![Resp::Int(0), Resp::Str(vec![])]))      // empty queue: 0,""  (a stored entry is handled below)
    } else if id == ID_ERR_COUNT {
        Ok(Resp::Int(st.dev.queue.len() as i128))
    } else {
        let (name, r) = handler(&mut st.dev, id, &args);
        if id != ID_VERS { st.log.push(OEv::Call(name)); }
        r
    };
    match res {
        Err(e) => Err(Exp::Exact(e)),
        Ok(r) => {
            if !c.query { return Ok(()); }
            let mark = st.out.len();
            let before = st.out.clone();
            if id == ID_ERR_NEXT && !st.dev.queue.is_empty() {
                // C09: removes and returns the OLDEST entry as <number>,"<description>"
                let e = st.dev.queue.remove(0);
                st.out.push(Tok::QErr(e));
            } else { enc(&r, &mut st.out); }
            push_bytes(&mut st.out, b"\n");
            let _ = mark;
            if let Some(cap) = st.wcap {
                let (lo, hi) = toks_len(&st.out);
                if lo > cap {
                    // W::wr_fail: the response does not fit: "Too much data" (-223) from a byte write, or the
                    // "System error" (-310) a refused formatted write is mapped to; what was written is unspecified
                    st.out = before; st.overflow = true;
                    return Err(Exp::AnyOf(vec![-223, -310]));
                } else if hi > cap { st.uncertain = true; }
            }
            st.out.push(Tok::Flush);
            Ok(())
        },
    }
}

pub fn first_nl(s: &[u8]) -> Option<usize> { s.iter().position(|b| *b == 10) }

/// spec_run: returns the length of the unconsumed suffix
pub fn spec_run(t: &OTree, root: usize, hdr0: usize, s0: &[u8], st: &mut RunSt) -> usize {
    let mut s = s0;
    let mut hdr = hdr0;
    loop {
        if s.is_empty() { return 0; }
        match sp_unit(t, root, hdr, s) {
            Err(PK::Inc) => return s.len(),
            Err(k) => {
                // rej_err: "Undefined header" for a fatal rejection (C01); otherwise unspecified (soft_err)
                log_err(st, if k == PK::Fatal { Exp::Exact(E_UNDEFINED_HEADER) } else { Exp::Any });
                match first_nl(s) { Some(p) => { s = &s[p + 1..]; hdr = root; }, None => return s.len() }
            },
            Ok((n, call)) => {
                if !(1 <= n && n <= s.len()) { return s.len(); }
                match call {
                    None => { s = &s[n..]; hdr = root; },
                    Some(c) => {
                        if let Err(e) = spec_execute(t, &c, st) { log_err(st, e); }
                        hdr = if c.terminated { root } else { match c.path { Some(h) => h, None => hdr } };
                        s = &s[n..];
                    },
                }
            },
        }
    }
}

/// grammar.vrs msg_complete: going through the message unit by unit reaches a terminator, an empty message or a
/// faulty unit before the input ends
pub fn msg_complete(t: &OTree, root: usize, hdr0: usize, s0: &[u8]) -> bool {
    let (mut hdr, mut s) = (hdr0, s0);
    loop {
        match sp_unit(t, root, hdr, s) {
            Err(PK::Inc) => return false,
            Err(_) => return true,
            Ok((_, None)) => return true,
            Ok((n, Some(c))) => {
                if c.terminated { return true; }
                if !(1 <= n && n <= s.len()) { return true; }
                hdr = match c.path { Some(h) => h, None => hdr };
                s = &s[n..];
            },
        }
    }
}
/// process_model: PSt and feed_byte / feed
pub struct PSt { pub st: RunSt, pub win: Vec<u8>, pub outs: Vec<Vec<Tok>>, /// stream position after which each payload is due
    pub due: Vec<usize>, pub fed: usize }
pub fn feed_byte(t: &OTree, p: &mut PSt, b: u8, cap: usize) {
    p.win.push(b);
    p.fed += 1;
    if b == 10 && msg_complete(t, 0, 0, &p.win) {
        p.st.out.clear();
        let rest = spec_run(t, 0, 0, &p.win.clone(), &mut p.st);
        let consumed = p.win.len() - rest;
        p.win.drain(..consumed);
        if !p.st.out.is_empty() { p.outs.push(std::mem::take(&mut p.st.out)); p.due.push(p.fed); }
    }
    if p.win.len() >= cap { p.win.clear(); }
}
