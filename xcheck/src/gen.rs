//! Generator families: which inputs are enumerated for which property, and which aspects of a disagreement count.
//! Every family is exhaustive within its stated bound, except the ones marked "sampled" (seeded, reproducible).
use crate::oracle::{self, DECLS};
use crate::{Mode, Scenario};

pub struct Family {
    pub name: &'static str,
    pub props: &'static [&'static str],
    /// aspects of a disagreement that are this property's business (see main.rs `Diff.kind`)
    pub kinds: &'static [&'static str],
    pub bound: &'static str,
    pub gen: fn(u64, &mut dyn FnMut(Scenario) -> bool),
}
type Emit<'a> = &'a mut dyn FnMut(Scenario) -> bool;

fn run(input: Vec<u8>) -> Scenario { Scenario { mode: Mode::Run, input, whole: false, base: None } }
fn cat(parts: &[&[u8]]) -> Vec<u8> { parts.concat() }

/// the upper half of the seed carries the scale (thorough tier: 10): larger exhaustive bounds where marked
fn scale_of(seed: u64) -> u64 { (seed >> 32).max(1) }
struct Rng(u64);
impl Rng {
    fn next(&mut self) -> u64 { self.0 ^= self.0 << 13; self.0 ^= self.0 >> 7; self.0 ^= self.0 << 17; self.0 }
    fn below(&mut self, n: usize) -> usize { (self.next() % n as u64) as usize }
}

/// a valid parameter list for declaration `id`
fn good_args(id: usize) -> &'static str {
    match id {
        2 => " 5", 4 => " -3", 6 => " ON", 7 => " 1,2,3", 8 => " -4,5", 9 => " 'hi'", 11 => " #13abc", 13 => " 1.5", 14 => " -2.25E1", 18 => " 1",
        22 => " #HFF", 23 => " -1,\"x\",OFF", 24 => " 7", 26 => " -1,2,-3",
        36 => " 1,2,3,4,5,6,7,8,9,10", 37 => " 1.5,2", 38 => " 3", 39 => " -220", 42 => " 18446744073709551615", 43 => " -113", 44 => " 9", 46 => " 3", 49 => " 4", 50 => " 5,-5",
        _ => "",
    }
}
fn mixed_case(s: &[u8], k: u64) -> Vec<u8> {
    s.iter().enumerate().map(|(i, c)| if (k >> (i % 60)) & 1 == 1 { c.to_ascii_lowercase() } else { c.to_ascii_uppercase() }).collect()
}

// ---------------------------------------------------------------- C01
/// every declaration: every allowed spelling (short/long per node, optional nodes in or out) in three letter cases;
/// and near misses: each mnemonic cut between short and long form / extended by one letter, a level dropped, a level
/// doubled, an undeclared level appended, the query mark toggled
fn g_headers(_seed: u64, emit: Emit) {
    for (id, d) in DECLS.iter().enumerate() {
        let (sps, q) = oracle::spellings(d);
        let qm: &[u8] = if q { b"?" } else { b"" };
        let anti: &[u8] = if q { b"" } else { b"?" };
        for sp in &sps {
            if sp.is_empty() { continue; }
            let hdr = sp.join(&b':');
            for k in [0u64, u64::MAX, 0x5a5a_5a5a_5a5a_5a5a] {
                let h = mixed_case(&hdr, k);
                if !emit(run(cat(&[&h, qm, good_args(id).as_bytes(), b"\n"]))) { return; }
                if !emit(run(cat(&[b":", &h, qm, good_args(id).as_bytes(), b"\n"]))) { return; }
            }
            // query mark toggled
            if !emit(run(cat(&[&hdr, anti, good_args(id).as_bytes(), b"\n"]))) { return; }
            // near misses per level
            for li in 0..sp.len() {
                let mut variants: Vec<Vec<u8>> = vec![];
                let m = &sp[li];
                for cut in 1..m.len() { variants.push(m[..cut].to_vec()); }
                let mut ext = m.clone(); ext.push(b'X'); variants.push(ext);
                let mut ext2 = m.clone(); ext2.push(b'1'); variants.push(ext2);
                for v in variants {
                    let mut p = sp.clone(); p[li] = v;
                    if !emit(run(cat(&[&p.join(&b':'), qm, good_args(id).as_bytes(), b"\n"]))) { return; }
                }
                let mut dropped = sp.clone(); dropped.remove(li);
                if !dropped.is_empty() { if !emit(run(cat(&[&dropped.join(&b':'), qm, good_args(id).as_bytes(), b"\n"]))) { return; } }
                let mut doubled = sp.clone(); doubled.insert(li, sp[li].clone());
                if !emit(run(cat(&[&doubled.join(&b':'), qm, good_args(id).as_bytes(), b"\n"]))) { return; }
            }
            let mut deeper = sp.clone(); deeper.push(b"NEXT".to_vec());
            if !emit(run(cat(&[&deeper.join(&b':'), qm, good_args(id).as_bytes(), b"\n"]))) { return; }
        }
    }
    // standard commands that were NOT declared must not exist
    for h in ["*CLS", "*ESE 1", "*OPC?", "SYST:ERR:ALL?", "SYST:VERS", "SYST?", "STAT:OPER?", "*"] { if !emit(run(cat(&[h.as_bytes(), b"\n"]))) { return; } }
}

// ---------------------------------------------------------------- C02
const UNITS: &[&str] = &[
    "SOUR:LEV?", "LEV?", ":LEV?", "*IDN?", "SOUR:LEV 5", "RANG 3", "CONF:SOUR:LEV?", "SOUR:LEV:STEP 2", "STEP 1", "MODE ON", "SUB:MODE OFF",
    "SOUR:SUB:MODE ON", "", "NOPE", "FAIL", ":SOUR:LEV?", "*RST", "SOUR:LEV?;LEV 9", "LEV:STEP 4", ":CONF:SOUR:LEV?", "SOUR:RANG 1", "MEAS:PAIR?", "CHAR?",
    // units that parse but fail in execution (the path they leave behind is the same as if they had succeeded)
    "SOUR:LEV 999", "SOUR:LEV:STEP MAYBE", "SOUR:LEV? 1", "SOUR:LEV:STEP", "SOUR:SUB:MODE 2", "LEV", "CONF:SOUR:LEV",
];
/// every program message of 1..=3 units from a pool of 30 (relative, absolute, common, faulty, empty), alone and after
/// / before a second message; with and without a trailing ';'
/// compound messages streamed through process (C02 is observed at the handler log of run AND of process)
const COMPOUND_STREAMS: &[&str] = &[
    "SOUR:LEV 5;STEP 2;:LEV?\nLEV?\n", "DISP:TEXT 'a';TEXT 'x\ny';TEXT?\nLEV?\n", "SOUR:LEV 1;RANG 2;:DATA:BLOC #11z;BLOC #13a\nb;BLOC?\n",
    "SOUR:LEV:STEP 1;STEP 2;:SOUR:LEV 3;LEV?;:LEV?\n", "*RST;SOUR:LEV 9;*IDN?;LEV?\nLEV?\n", "CONF:SOUR:LEV?;LEV?;:SOUR:LEV?\n", "SOUR:LEV 1;\nLEV?\n;\nLEV?\n",
    "SOUR:SUB:MODE ON;MODE OFF;:SOUR:MODE 1\n", "DISP:TEXT 'q';*RST;TEXT \"u\nv\";TEXT?\n", "SOUR:LEV 999;RANG 3;NOPE;LEV?\nLEV?\n",
];
fn g_compound(seed: u64, emit: Emit) {
    for m in COMPOUND_STREAMS {
        let m = m.as_bytes().to_vec();
        let mut cutsets: Vec<Vec<usize>> = (1..m.len()).map(|i| vec![i]).collect();
        cutsets.push((1..=m.len()).collect()); cutsets.push(vec![]);
        for cuts in cutsets {
            if !emit(Scenario { mode: Mode::Process { n: 64, cuts, yields: 0, fail_at: None }, input: m.clone(), whole: true, base: None }) { return; }
        }
    }
    if scale_of(seed) > 1 {
        // thorough: every message of 4 units from the first 14 pool entries (38 416)
        let k = 14;
        for a in 0..k { for b in 0..k { for c in 0..k { for d in 0..k {
            let m = format!("{};{};{};{}\n", UNITS[a], UNITS[b], UNITS[c], UNITS[d]).into_bytes();
            if !emit(run(m)) { return; }
        } } } }
    }
    let n = UNITS.len();
    for a in 0..n { for b in 0..=n { for c in 0..=n {
        if b == n && c != n { continue; }
        let mut m: Vec<u8> = UNITS[a].as_bytes().to_vec();
        if b < n { m.push(b';'); m.extend(UNITS[b].as_bytes()); }
        if c < n { m.push(b';'); m.extend(UNITS[c].as_bytes()); }
        m.push(b'\n');
        if !emit(run(m.clone())) { return; }
        if c == n {
            // message context: the same message after another message (terminator resets the path), and with ';' NL
            for pre in ["SOUR:LEV 3\n", "CONF:SOUR:LEV?\n", "SOUR:LEV:STEP 1;\n", "\n", "BAD:HDR\n"] {
                if !emit(run(cat(&[pre.as_bytes(), &m]))) { return; }
            }
            let mut t = m.clone(); t.pop(); t.extend(b";\n");
            if !emit(run(t)) { return; }
        }
    } } }
}

// ---------------------------------------------------------------- C03
fn to_radix(mut x: u128, radix: u128) -> String {
    let mut d = vec![];
    loop { d.push(b"0123456789ABCDEF"[(x % radix) as usize]); x /= radix; if x == 0 { break; } }
    d.reverse();
    String::from_utf8(d).unwrap()
}
fn int_literals() -> Vec<String> {
    let mut v: Vec<String> = vec![];
    // every radix at the digit-count boundaries of 8, 16, 32 and 64 bit values
    for bits in [7u32, 8, 15, 16, 31, 32, 63, 64, 65, 66, 67] {
        for x in [(1u128 << bits) - 1, 1u128 << bits, (1u128 << bits) + 7] {
            v.push(format!("#H{}", to_radix(x, 16))); v.push(format!("#Q{}", to_radix(x, 8))); v.push(format!("#B{}", to_radix(x, 2))); v.push(to_radix(x, 10));
            v.push(format!("#Q000{}", to_radix(x, 8)));
        }
    }
    for x in ["0", "1", "7", "127", "128", "255", "256", "32767", "32768", "65535", "65536", "2147483647", "2147483648", "4294967295", "4294967296",
              "9223372036854775807", "9223372036854775808", "18446744073709551615", "18446744073709551616", "340282366920938463463374607431768211456", "007", "00000000000000000000000001"] {
        v.push(x.to_string()); v.push(format!("-{x}")); v.push(format!("+{x}"));
    }
    for x in ["#H0", "#HFF", "#hff", "#H100", "#H7FFF", "#H8000", "#HFFFF", "#H10000", "#HFFFFFFFF", "#H100000000", "#HFFFFFFFFFFFFFFFF", "#H10000000000000000", "#B0", "#B1", "#b11111111",
              "#B100000000", "#Q0", "#Q377", "#q400", "#Q177777", "#Q200000", "1.0", "1.", ".5", "1E2", "1e0", "5.0E0", "--1", "+-1", "-+1", "1 2", "12A", "ON", "OFF", "'5'", "\"5\"", "#11x", "#H", "#HG", "#B2", "#Q8", "-#HFF", "+#HFF",
              "1,", ",1", ""] {
        v.push(x.to_string());
    }
    v
}
/// every integer-typed handler with ~280 literals at and beyond every type bound, in all four notations, signed,
/// padded, of the wrong kind; booleans, strings, blocks and reals with valid and invalid literals; parameter counts
/// 0..=12 for every handler
fn g_args(_seed: u64, emit: Emit) {
    let lits = int_literals();
    for (h, _id) in [("SOUR:LEV", 2usize), ("SOUR:RANG", 4), ("HEX", 22), ("SOUR:LEV:STEP", 24)] {
        for l in &lits { if !emit(run(format!("{h} {l}\n").into_bytes())) { return; } }
    }
    for l in &lits {
        for m in &["1", "0", "-1", "4294967295", "4294967296"] {
            if !emit(run(format!("MATH:SUM? {l},{m},2\n").into_bytes())) { return; }
            if !emit(run(format!("MATH:SUM? {m},2,{l}\n").into_bytes())) { return; }
            if !emit(run(format!("MATH:MULT? {l},{m}\n").into_bytes())) { return; }
            if !emit(run(format!("WIDE {l},{m},{l}\n").into_bytes())) { return; }
            if !emit(run(format!("WIDE {m},{l},-{m}\n").into_bytes())) { return; }
            if !emit(run(format!("MEAS:TRI? {l},'s',ON\n").into_bytes())) { return; }
        }
    }
    for b in ["ON", "OFF", "1", "0", "on", "off", "2", "-1", "+1", "00", "01", "1.0", "YES", "O", "ONN", "'ON'", "\"1\"", "#H1", "#B1", "#11A", "ON,OFF", ""] {
        if !emit(run(format!("SOUR:MODE {b}\n").into_bytes())) { return; }
        if !emit(run(format!("MEAS:TRI? 1,'s',{b}\n").into_bytes())) { return; }
    }
    for s in ["'a'", "\"a\"", "''", "\"\"", "'a;b,c:d#e\"f'", "\"a'b\"", "' lead and trail '", "'\u{e9}\u{4e2d}'", "abc", "12", "#13abc", "'a','b'", "'a' 'b'", "'a'x"] {
        if !emit(run(format!("DISP:TEXT {s}\n").into_bytes())) { return; }
        if !emit(run(format!("DISP:TEXT {s};TEXT?\n").into_bytes())) { return; }
        if !emit(run(format!("MEAS:TRI? 1,{s},1\n").into_bytes())) { return; }
    }
    let blocks: [&[u8]; 12] = [b"#10", b"#11a", b"#13a\n;", b"#212abcdefghijkl", b"#3005hello", b"#15,;:'\"", b"#0", b"#1", b"#A1a", b"'abc'", b"12", b"#11a,#11b"];
    for b in blocks {
        if !emit(run(cat(&[b"DATA:BLOC ", b, b"\n"]))) { return; }
        if !emit(run(cat(&[b"DATA:BLOC ", b, b";BLOC?\n"]))) { return; }
    }
    for f in ["0", "-0", "1", "1.5", "-2.25E1", "1E308", "1E309", "-1E309", "1E-400", "4.9E-324", "0.1", "0.30000000000000004", "3.4028235E38", "3.4028236E38", "1.17549435E-38", "16777217", "9007199254740993",
              "1.0000000596046447753906250000000001", "-16777217.0000000001", "1.00000017881393421514957253748434595763683319091796875001", "8388609.5000000001", "0.50000002980232238769531250001",
              ".5", "5.", "+.5E+1", "1e5", "1E+05", "123456789012345678901234567890", "0.000000000000000000000000000001", "NAN", "INF", "1.5.2", "1E", "E5", "#HFF", "'1.5'", "1,2", ""] {
        if !emit(run(format!("MEAS:DOUB? {f}\n").into_bytes())) { return; }
        if !emit(run(format!("MEAS:SING? {f}\n").into_bytes())) { return; }
    }
    // parameter counts
    for id in 0..DECLS.len() {
        let (sps, q) = oracle::spellings(DECLS[id]);
        let hdr = sps[0].join(&b':');
        for k in 0..=12usize {
            let mut m = hdr.clone(); if q { m.push(b'?'); }
            if k > 0 { m.push(b' '); }
            for i in 0..k { if i > 0 { m.push(b','); } m.push(b'1'); }
            m.push(b'\n');
            if !emit(run(m)) { return; }
        }
    }
}

// ---------------------------------------------------------------- C04
/// every query of the interface, with device state set to strings / blocks made of every 1..=2 byte combination of
/// {a, ", ', ;, comma, NL (blocks only), 0xC3 0xA9}; reals echoed for 33 literals and 4 special-value sets; three writers
fn g_responses(_seed: u64, emit0: Emit) {
    // every message through the logging writer + std Vec (Mode::Run) and through heapless writers of 64 and 1024 bytes
    let emit: Emit = &mut |sc: Scenario| -> bool {
        let input = sc.input.clone();
        emit0(sc) && emit0(Scenario { mode: Mode::RunCap(1024), input: input.clone(), whole: false, base: None }) && emit0(Scenario { mode: Mode::RunCap(64), input, whole: false, base: None })
    };
    for q in ["*IDN?", "SOUR:LEV?", "LEV?", "MATH:SUM? 4294967295,4294967295,4294967295", "MATH:MULT? -9223372036854775808,1", "MATH:MULT? 3037000500,-3037000500", "MEAS:PAIR?", "MEAS:LIST?", "MEAS:CHAR?",
              "MEAS:SPEC? 0", "MEAS:SPEC? 1", "MEAS:SPEC? 2", "MEAS:SPEC? 3", "MEAS:SPEC? 4", "MATH:MULTF? 1E200,1E200", "MATH:MULTF? -1E200,1E200", "MATH:MULTF? 0,-1", "BIG?", "SYST:VERS?", "SYST:ERR?", "SYST:ERR:COUN?", "CONF:SOUR:LEV?", "DISP:TEXT?", "DATA:BLOC?", "FAILQ?", "MEAS:TRI? -128,'q\"q',ON",
              "SOUR:LEV 200;LEV?;:LEV?", "*IDN?;*IDN?", "NOPE?", "SOUR:LEV? 1", "MEAS:DOUB? 'x'"] {
        if !emit(run(format!("{q}\n").into_bytes())) { return; }
        if !emit(run(format!("*RST;{q};{q}\n{q}\n").into_bytes())) { return; }
    }
    // integers: powers of ten and two and their neighbours, values with zero digit groups, every type bound
    let mut ints: Vec<i128> = vec![];
    for k in 0..=19u32 { let p = 10i128.pow(k); for d in [1i128, 2, 5, 9] { for e in [-1i128, 0, 1, 7, 10, 100_000_000, 99_999_999] { ints.push(d * p + e); } } }
    for k in 0..=64u32 { let p = 1i128 << k; ints.extend([p - 1, p, p + 1]); }
    ints.extend([5_000_000_001, 4_000_000_000, 3_000_000_000_000_000_005, 1_000_000_000_000_000_001, 1_000_000_001_000_000_000, 100_000_000_000_000_000, 10_000_000_000_000_000_000, 18_000_000_000_000_000_000]);
    ints.sort(); ints.dedup();
    for x in &ints {
        if *x >= 0 && *x <= u64::MAX as i128 { if !emit(run(format!("MATH:ECHO? {x}\n").into_bytes())) { return; } }
        for y in [*x, -*x] {
            if y >= i64::MIN as i128 && y <= i64::MAX as i128 { if !emit(run(format!("MATH:MULT? {y},1;:MEAS:TRI? {},'z',1\n", (y % 128) as i8).into_bytes())) { return; } }
        }
        if *x <= 255 { if !emit(run(format!("SOUR:LEV {x};LEV?;:LEV?\n").into_bytes())) { return; } }
    }
    // an Error value as response data, for every standard number
    for n in -420i32..=60 { if !emit(run(format!("ERR:VAL? {n}\n").into_bytes())) { return; } }
    for (a, b) in [("0", "0"), ("18446744073709551615", "-9223372036854775808"), ("18446744073709551616", "0"), ("1", "9223372036854775808"), ("#HFFFFFFFFFFFFFFFF", "9223372036854775807")] {
        if !emit(run(format!("MATH:SIZE? {a},{b}\n").into_bytes())) { return; }
    }
    let alpha: [&[u8]; 7] = [b"a", b"\"", b"'", b";", b",", b"\xc3\xa9", b" "];
    for a in 0..alpha.len() { for b in 0..=alpha.len() { for c in 0..=alpha.len() {
        if b == alpha.len() && c != alpha.len() { continue; }
        let mut p: Vec<u8> = alpha[a].to_vec();
        if b < alpha.len() { p.extend(alpha[b]); }
        if c < alpha.len() { p.extend(alpha[c]); }
        if !p.contains(&b'\'') { if !emit(run(cat(&[b"DISP:TEXT '", &p, b"';TEXT?\n"]))) { return; } }
        if !p.contains(&b'"') { if !emit(run(cat(&[b"DISP:TEXT \"", &p, b"\";TEXT?\n"]))) { return; } if !emit(run(cat(&[b"MEAS:TRI? 5,\"", &p, b"\",0\n"]))) { return; } }
        let l = p.len().to_string();
        if !emit(run(cat(&[b"DATA:BLOC #", l.len().to_string().as_bytes(), l.as_bytes(), &p, b";BLOC?\n"]))) { return; }
        if !emit(run(cat(&[b"DATA:BLOC #", l.len().to_string().as_bytes(), l.as_bytes(), &p, b"\nDATA:BLOC?\n"]))) { return; }
    } } }
    for n in [0usize, 1, 9, 10, 11, 99, 100, 101, 255, 256, 1000] {
        let p = vec![b'\n'; n];
        let l = n.to_string();
        if n > 0 { if !emit(run(cat(&[b"DATA:BLOC #", l.len().to_string().as_bytes(), l.as_bytes(), &p, b";BLOC?\n"]))) { return; } }
        let s = vec![b'"'; n];
        if !emit(run(cat(&[b"DISP:TEXT '", &s, b"';TEXT?\n"]))) { return; }
    }
    for f in ["0", "-0", "1", "1.5", "-2.25E1", "1E308", "-1E308", "4.9E-324", "0.1", "0.30000000000000004", "3.4028235E38", "1.17549435E-38", "16777217", "9007199254740993", "1E-7", "1E21", "123456.789",
              "1E35", "2.5E-34", "-3.4028235E38", "1E40", "1E-35", "1E300", "1E16", "1E15", "0.000001", "0.0000001", "2.2250738585072014E-308", "1.7976931348623157E308", "5E-324", "3.4028234664E38", "1E-45", "1.4E-45", "7E-46", "0.5", "100", "1E2", "65504", "3.14159265358979"] {
        if !emit(run(format!("MEAS:DOUB? {f}\n").into_bytes())) { return; }
        if !emit(run(format!("MEAS:SING? {f}\n").into_bytes())) { return; }
        if !emit(run(format!("MEAS:SING? {f};DOUB? {f};:MEAS:DOUB? -{f}\n").into_bytes())) { return; }
    }
}

// ---------------------------------------------------------------- C05
const SOUP: &[&[u8]] = &[b"SOUR", b":", b"LEV", b"?", b" ", b"1", b",", b";", b"\n", b"'", b"\"", b"#", b"H", b"2", b"a", b"*", b"IDN", b"E", b"+", b"-", b".", b"\xff", b"\r", b"\x00", b"BIG?", b"#3", b"9"];
/// token soup: every sequence of 1..=3 tokens and (sampled, seeded) 200 000 sequences of 4..=12 tokens from 27 tokens,
/// given to run (unbounded and 1..=64 byte writers) and streamed through process with N in {1,2,3,4,8,16} in single
/// byte reads, whole reads and sampled cuts. Only panics count here (a hang is a time-out of the whole family).
fn g_robust(seed: u64, emit: Emit) {
    // the upper half of the seed carries the scale of the sampled part (thorough tier: x10)
    let scale = (seed >> 32).max(1) as u32;
    let seed = seed & 0xffff_ffff;
    let n = SOUP.len();
    let mut rng = Rng(seed.wrapping_mul(0x9e37_79b9_7f4a_7c15) | 1);
    let mut k = 0u64;
    let mut all = |input: Vec<u8>, emit: &mut dyn FnMut(Scenario) -> bool, k: u64, rng: &mut Rng| -> bool {
        if !emit(run(input.clone())) { return false; }
        let caps = [1usize, 2, 3, 4, 6, 8, 12, 16, 24, 32, 48, 64];
        if !emit(Scenario { mode: Mode::RunCap(caps[(k % 12) as usize]), input: input.clone(), whole: false, base: None }) { return false; }
        let ns = [1usize, 2, 3, 4, 8, 16];
        let nn = ns[(k % 6) as usize];
        let cuts: Vec<usize> = match k % 3 { 0 => (1..=input.len()).collect(), 1 => vec![], _ => { let mut c: Vec<usize> = (0..input.len() / 2 + 1).map(|_| rng.below(input.len() + 1)).collect(); c.sort(); c } };
        emit(Scenario { mode: Mode::Process { n: nn, cuts, yields: (k % 2) as usize, fail_at: None }, input, whole: false, base: None })
    };
    for a in 0..n { for b in 0..=n { for c in 0..=n {
        if b == n && c != n { continue; }
        let mut m: Vec<u8> = SOUP[a].to_vec();
        if b < n { m.extend(SOUP[b]); }
        if c < n { m.extend(SOUP[c]); }
        k += 1;
        if !all(m.clone(), emit, k, &mut rng) { return; }
        m.push(b'\n');
        if !all(m, emit, k, &mut rng) { return; }
    } } }
    // structured: parameter counts 0..=14, blocks whose payload is short by 0..=3 bytes, long numbers / mnemonics
    for h in ["SOUR:LEV", "MATH:SUM?", "CONF:TEN", "NOPE", "*IDN?", "SYST:ERR?"] {
        for cnt in 0..=14usize { for v in ["1", "'a'", "#11x", "ON"] {
            let mut m = h.as_bytes().to_vec();
            for i in 0..cnt { m.push(if i == 0 { b' ' } else { b',' }); m.extend(v.as_bytes()); }
            m.push(b'\n'); k += 1;
            if !all(m, emit, k, &mut rng) { return; }
        } }
    }
    for d in 1..=3usize { for count in [0usize, 1, 5, 12, 99, 100] { for short in 0..=3usize { for tail in [&b"\n"[..], b"", b"\nLEV?\n", b";LEV?\n"] {
        let l = format!("{:0w$}", count, w = d);
        if l.len() != d { continue; }
        let have = count.saturating_sub(short);
        let m = cat(&[b"DATA:BLOC #", d.to_string().as_bytes(), l.as_bytes(), &vec![b'a'; have], tail]);
        k += 1;
        if !all(m.clone(), emit, k, &mut rng) { return; }
        let m2 = cat(&[b"MEAS:TRI? 1,'a',ON;:DATA:BLOC #", d.to_string().as_bytes(), l.as_bytes(), &vec![b'\n'; have], tail]);
        k += 1;
        if !all(m2, emit, k, &mut rng) { return; }
    } } } }
    for n in [11usize, 12, 13, 64, 300] {
        for m in [cat(&[b"SOUR:LEV ", &vec![b'9'; n], b"\n"]), cat(&[&vec![b'A'; n], b"\n"]), cat(&[b"SOUR:", &vec![b'a'; n], b"?\n"]), cat(&[b"MEAS:DOUB? 1E", &vec![b'9'; n], b"\n"]), cat(&[b"MEAS:DOUB? ", &vec![b'9'; n], b"\n"]), cat(&[b"DISP:TEXT '", &vec![b'x'; n], b"';TEXT?\n"])] {
            k += 1;
            if !all(m, emit, k, &mut rng) { return; }
        }
    }
    for f in ["1E40", "1E-35", "3.4028235E38", "1.7976931348623157E308", "4.9E-324", "-1E300"] {
        for m in [format!("MEAS:DOUB? {f}\n"), format!("MEAS:SING? {f}\n"), format!("MATH:MULTF? {f},1\n")] {
            for kk in 0..12 { if !all(m.clone().into_bytes(), emit, kk, &mut rng) { return; } }
            // and with room for the command in the buffer of process
            for n in [32usize, 64, 128] { if !emit(Scenario { mode: Mode::Process { n, cuts: vec![], yields: 0, fail_at: None }, input: m.clone().into_bytes(), whole: false, base: None }) { return; } }
        }
    }
    // every input of the other run-/process-based families as well (only crashes and hangs count here)
    for g in [g_headers as fn(u64, Emit), g_compound, g_args, g_responses, g_faulty, g_finality, g_transport] {
        let mut go = true;
        g(seed, &mut |mut sc: Scenario| -> bool { sc.base = None; go = emit(sc); go });
        if !go { return; }
    }
    for _ in 0..200_000u32 * scale {
        let len = 4 + rng.below(9);
        let mut m: Vec<u8> = vec![];
        for _ in 0..len { m.extend(SOUP[rng.below(n)]); }
        k += 1;
        if !all(m, emit, k, &mut rng) { return; }
    }
}

// ---------------------------------------------------------------- C06
const FAULTY: &[&str] = &[
    "NOPE", "SOUR:NOPE 1", "SOUR:LEV", "SOUR:LEV 1,2", "SOUR:LEV 256", "SOUR:LEV 'x'", "SOUR:MODE 2", "FAIL", "FAILQ?", "SOUR:LEV? 1", "SOUR LEV", "SOUR:LEV 1 2", "SOUR::LEV 1", "SOUR:LEV 1,,2",
    "1SOUR", "SOUR:LEV @", "*", "*IDN", "LEV", "SOUR:LEV?;", "MATH:SUM? 1,2", "MATH:SUM? 1,2,3,4", "SOUR:LEV 1,2,3,4,5,6,7,8,9,10,11", "DISP:TEXT abc def", "SOUR:LEV #HG", "SOUR:LEV 1E", "SOUR:LEV 1.5.2",
    "DISP:TEXT 'a'b", "SOUR:LEV \u{e9}", ":", "SOUR:", ":SOUR:LEV 1:2",
    "NOPE \"it's\"", "DISP:TEXT 'a' 'say \"hi'", "NOPE 'a\"b'", "SOUR:LEV 1 \"'\"", "SYST:ERR? 1", "SYST:ERR:COUN? 1", "SYST:VERS? 1", "SYST:ERR:NEXT? #H10,2", "ERR:RAIS -220", "ERR:RAIS 7",
    "LEV", "*IDN", "SOUR:RANG?", "CONF:TEN 1,2,3,4,5,6,7,8,9,10,11", "CONF:TEN 1,2,3,4,5,6,7,8,9,300",
];
const GOOD: &[&str] = &["SOUR:LEV 7", "SOUR:LEV?", "*IDN?", "LEV?", "SOUR:LEV 1;LEV?", "MEAS:PAIR?", "DISP:TEXT 'ok';TEXT?"];
/// message triples good / message containing one faulty unit (59 kinds, at the first, middle or last position among
/// good units) / good, in one buffer given to run and streamed through process (N = 64, reads of 1, 5 and all bytes)
/// faulty units that are not valid UTF-8 (truncated or impossible sequences inside a closed string, in a header, as a parameter)
const FAULTY_BIN: &[&[u8]] = &[b"DISP:TEXT 'ab\xE2\x82'", b"DISP:TEXT '\xff'", b"DISP:TEXT \"\xC3\"", b"SOUR:LEV \xE2\x82", b"NOPE\xC3", b"SOUR:L\xC3\xA9V 1", b"MEAS:TRI? 1,'\xF0\x9F',ON", b"HEX #HF\xC3", b"DISP:TEXT '\xE2\x82\xAC' x"];
fn g_faulty(_seed: u64, emit: Emit) {
    let all: Vec<Vec<u8>> = FAULTY.iter().map(|f| f.as_bytes().to_vec()).chain(FAULTY_BIN.iter().map(|f| f.to_vec())).collect();
    for f in &all { let f = String::from_utf8_lossy(f).into_owned(); let _ = &f; }
    for fb in &all { for (gi, g) in GOOD.iter().enumerate() {
        let g2 = GOOD[(gi + 1) % GOOD.len()].as_bytes();
        let g3 = GOOD[(gi + 3) % GOOD.len()].as_bytes();
        let g = g.as_bytes();
        for m in [cat(&[fb, b"\n"]), cat(&[fb, b";", g2, b"\n"]), cat(&[g2, b";", fb, b"\n"]), cat(&[g2, b";", fb, b";", g3, b"\n"]), cat(&[g2, b";:", fb, b";", g3, b"\n"])] {
            let stream = cat(&[g, b"\n", &m, g, b"\n", g3, b"\n"]);
            if stream.iter().filter(|b| **b == b'\n').count() != 4 { continue; }
            if !emit(run(stream.clone())) { return; }
            for step in [1usize, 5, 0] {
                let cuts: Vec<usize> = if step == 0 { vec![] } else { (1..=stream.len() / step).map(|i| i * step).collect() };
                if !emit(Scenario { mode: Mode::Process { n: 64, cuts, yields: 0, fail_at: None }, input: stream.clone(), whole: false, base: None }) { return; }
            }
        }
    } }
}

// ---------------------------------------------------------------- C07
const STREAMS: &[&str] = &[
    "SOUR:LEV 5\nSOUR:LEV?\n", "*IDN?\n", "SOUR:LEV 1;LEV?;:LEV?\nLEV?\n", "NOPE\nLEV?\n", "\n\n*RST\n", "DISP:TEXT 'a;b'\nDISP:TEXT?\n", "MEAS:PAIR?;LIST?\n", "SOUR:LEV 300\nSYST:ERR?\n",
    "0123456789012345\nLEV?\n", "SOUR:LEV 1\r\nLEV?\r\n", "FAIL;LEV?\nSYST:ERR:COUN?\n", "LEV?", "LEV?\nLE", "DATA:BLOC #13a;b\nDATA:BLOC?\n", "  LEV?  \n", "SOUR:LEV 1;\n;\n", "BIG?\nLEV?\n",
    "aaaaaaaaaaaaaaaaaaaaaaaaaaaaaaaaaaaaaaaaaaaaaaaaaaaaaaaaaaaaaaaaaaaaa\nLEV?\n", "LEV?\nLEV?\nLEV?\nLEV?\nLEV?\nLEV?\n",
    // newline inside a string / block, the real terminator possibly in the same read
    "DISP:TEXT 'x\ny'\nDISP:TEXT?\n", "DISP:TEXT 'q';TEXT 'x\ny';TEXT?\nLEV?\n", "LEV?;DATA:BLOC #15ab\ncd\nLEV?\n", "LEV?;DISP:TEXT 'a\nb'\nLEV?\n", "DATA:BLOC #14\n\n\n\n;BLOC?\n*RST\n", "*RST\n*RST\n*RST\n*RST\n",
    "SOUR:LEV 5;LEV?\nSOUR:LEV 5;LEV?\n", "MATH:MULT? 10000000,10000000\n", "SOUR:LEV 200;:LEV?\n", "MEAS:DOUB? 1E40\n",
    // a faulty message with a newline in a payload: after the error run() resumes behind that newline and may hand back
    // an incomplete rest (the one way left in which process() keeps part of what it gave to run())
    // (the payload after the embedded newline reads like `HEADER '` so that the closing quote re-opens a string)
    "DISP:TEXT 'x\nDISP:TEXT ' BAD\nLEV?\n'\nLEV?\n", "LEV?;DISP:TEXT 'x\nDISP:TEXT ' BAD\n'\nLEV?\n", "SOUR:LEV 3;LEV?;:DISP:TEXT \"x\nSOUR:LEV 4;:DISP:TEXT \" BAD\n\";LEV?\n",
    // a query whose response is the terminator alone
    "MEAS:NOTH?\nLEV?\n", "MEAS:NOTH?;NOTH?\n",
    // faulty messages with a stray quote / block header (a faulty message is complete at its terminator: nothing is withheld)
    "DISP:TEXT don't\n*IDN?\n", "LEV?;NOPE \"abc\nLEV?\n", "LEV? it's\nLEV?\n", "SOUR:LEV 1 #15\nLEV?\n", "NOPE 'x\nLEV?\n'\nLEV?\n",
    // white space other than the blank (NUL, TAB, CR, 0x1F) as the only separator, so that it can fall on a read boundary
    "SOUR:LEV\x007;LEV?\n", "SOUR:LEV\x1f7\x00;\x00LEV?\x00\n", "MATH:SUM?\t1\x00,\x002\x00,3\x00\nLEV?\r\n",
    // relative units with a newline in the payload, below a path that is not the root
    "SOUR:LEV 5;STEP 2;:DISP:TEXT 'a';TEXT 'x\ny';TEXT?\n", "DATA:BLOC #11a;BLOC #13x\ny;BLOC?\n",
];
/// 44 streams x N in {4,5,8,10,16,21,32,43,64} x every split into reads for streams of at most 12 bytes, and for longer ones:
/// single bytes, every 2-split, every fixed read size 2..=9, empty reads before / between / after, 40 sampled
/// compositions; each also with 1 and 3 suspensions per transport call. Compared with the SAME stream delivered by one
/// read per buffer fill (metamorphic: the reference is the real code itself), so that only the dependence on the
/// chunking counts.
fn g_chunking(seed: u64, emit: Emit) {
    // thorough: all compositions for streams of up to 16 bytes
    let all_upto = if scale_of(seed) > 1 { 16 } else { 12 };
    let mut rng = Rng(seed.wrapping_mul(0x2545_f491_4f6c_dd1d) | 1);
    for s in STREAMS {
        let input = s.as_bytes().to_vec();
        let l = input.len();
        for n in [4usize, 5, 8, 10, 16, 21, 32, 43, 64] {
            let base = Scenario { mode: Mode::Process { n, cuts: vec![], yields: 0, fail_at: None }, input: input.clone(), whole: false, base: None };
            let mut cutsets: Vec<Vec<usize>> = vec![(1..=l).collect()];
            if l <= all_upto { for mask in 0..(1u32 << (l - 1)) { cutsets.push((1..l).filter(|i| (mask >> (i - 1)) & 1 == 1).collect()); } }
            else {
                for i in 1..l { cutsets.push(vec![i]); }
                for step in 2..=9usize { cutsets.push((1..=l / step).map(|i| i * step).collect()); }
                for _ in 0..40 { let mut c: Vec<usize> = (0..1 + rng.below(l)).map(|_| rng.below(l + 1)).collect(); c.sort(); cutsets.push(c); }
            }
            cutsets.push(vec![0, 0, l / 2, l / 2, l / 2, l, l]);   // empty reads
            for (ci, cuts) in cutsets.into_iter().enumerate() {
                for yields in [0usize, 1, 3] {
                    if yields > 0 && ci % 7 != 0 { continue; }
                    if !emit(Scenario { mode: Mode::Process { n, cuts: cuts.clone(), yields, fail_at: None }, input: input.clone(), whole: false, base: Some(Box::new(base.clone())) }) { return; }
                }
            }
        }
        // second sentence of C07: identical to handing the messages to run one at a time (when they fit)
        // (reference: the real `run`, one message at a time; only when every message fits and is consumed completely)
        for n in [16usize, 21, 32, 43, 64, 128] {
            let each = Scenario { mode: Mode::RunEach(n), input: input.clone(), whole: false, base: None };
            if input.split_inclusive(|b| *b == b'\n').any(|m| m.len() > n) { continue; }
            for cuts in [vec![], (1..=l).collect::<Vec<usize>>(), (1..=l / 4).map(|i| i * 4).collect()] {
                if !emit(Scenario { mode: Mode::Process { n, cuts, yields: 0, fail_at: None }, input: input.clone(), whole: false, base: Some(Box::new(each.clone())) }) { return; }
            }
        }
    }
}

// ---------------------------------------------------------------- C08
const PAYLOAD: &[&[u8]] = &[b"a", b";", b",", b":", b"#", b"'", b"\"", b" ", b"\n", b"\t", b"?", b"*"];
/// strings (both quote characters) and blocks whose payload is every sequence of 1..=3 bytes from {a ; , : # ' " SP NL
/// TAB ? *} (the own quote excluded for strings), as the only or the second parameter, in the first unit of a message
/// or in a relative unit behind a compound unit, followed by a further unit and a further message; given to run
/// whole, and streamed through process (N = 64) with a read boundary at every position. Reference: ONE run over the
/// whole stream.
fn g_containers(seed: u64, emit: Emit) {
    let n = PAYLOAD.len();
    // thorough: payloads of up to 4 bytes
    let dmax = if scale_of(seed) > 1 { n } else { 0 };
    for a in 0..n { for b in 0..=n { for c in 0..=n { for d in 0..=dmax {
        if b == n && c != n { continue; }
        if c == n && d != dmax && dmax > 0 { continue; }
        let mut p: Vec<u8> = PAYLOAD[a].to_vec();
        if b < n { p.extend(PAYLOAD[b]); }
        if c < n { p.extend(PAYLOAD[c]); }
        if dmax > 0 && d < n { p.extend(PAYLOAD[d]); }
        let l = p.len().to_string();
        let mut msgs: Vec<Vec<u8>> = vec![];
        if !p.contains(&b'\'') { msgs.push(cat(&[b"DISP:TEXT '", &p, b"';TEXT?\nLEV?\n"])); msgs.push(cat(&[b"*RST;MEAS:TRI? 1,'", &p, b"',ON;:LEV?\n"])); }
        if !p.contains(&b'"') { msgs.push(cat(&[b"DISP:TEXT \"", &p, b"\";TEXT?\nLEV?\n"])); }
        // the container in a RELATIVE unit behind a compound unit (the header path must survive a read boundary inside the payload)
        if !p.contains(&b'\'') { msgs.push(cat(&[b"DISP:TEXT 'a';*RST;TEXT '", &p, b"';TEXT?\nLEV?\n"])); msgs.push(cat(&[b"DISP:TEXT 'a';TEXT '", &p, b"';TEXT?\nLEV?\n"])); msgs.push(cat(&[b"SOUR:LEV 1;RANG 2;:DATA:BLOC #11z;BLOC #", l.len().to_string().as_bytes(), l.as_bytes(), &p, b";BLOC?\n"])); }
        msgs.push(cat(&[b"DATA:BLOC #", l.len().to_string().as_bytes(), l.as_bytes(), &p, b";BLOC?\nLEV?\n"]));
        // the same messages followed by a message that carries binary (non UTF-8) data in a block: a container is
        // closed by its own syntax, nothing behind it takes part in it
        let more: Vec<Vec<u8>> = msgs.iter().map(|m| cat(&[m, b"DATA:BLOC #12\xff\xfe;BLOC?\n"])).collect();
        msgs.extend(more);
        for m in msgs {
            if !emit(run(m.clone())) { return; }
            let has_nl = p.contains(&b'\n');
            // all cut positions only for payloads with a newline (the others are covered by family `chunking`)
            let cutsets: Vec<Vec<usize>> = if has_nl { let mut v: Vec<Vec<usize>> = (1..m.len()).map(|i| vec![i]).collect(); v.push((1..=m.len()).collect()); v.push(vec![]); v } else { vec![vec![], (1..=m.len()).collect()] };
            for cuts in cutsets {
                if !emit(Scenario { mode: Mode::Process { n: 64, cuts, yields: 0, fail_at: None }, input: m.clone(), whole: true, base: None }) { return; }
            }
        }
    } } } }
    // faulty messages with a newline in a payload, after which run() hands back an incomplete rest (see STREAMS)
    for m in ["DISP:TEXT 'x\nDISP:TEXT ' BAD\nLEV?\n'\nLEV?\n", "LEV?;DISP:TEXT 'x\nDISP:TEXT ' BAD\n'\nLEV?\n", "SOUR:LEV 3;LEV?;:DISP:TEXT \"x\nSOUR:LEV 4;:DISP:TEXT \" BAD\n\";LEV?\n",
              "DATA:BLOC #19a\nDATA:BLOC # BAD\n11q;BLOC?\n"] {
        let m = m.as_bytes().to_vec();
        if !emit(run(m.clone())) { return; }
        let mut cutsets: Vec<Vec<usize>> = (1..m.len()).map(|i| vec![i]).collect();
        cutsets.push((1..=m.len()).collect()); cutsets.push(vec![]);
        for a in 1..m.len() { for b in (a + 1)..m.len() { cutsets.push(vec![a, b]); } }
        for cuts in cutsets {
            if !emit(Scenario { mode: Mode::Process { n: 64, cuts, yields: 0, fail_at: None }, input: m.clone(), whole: true, base: None }) { return; }
        }
    }
}

// ---------------------------------------------------------------- C09
const QOPS: &[&str] = &["NOPE\n", "SOUR:LEV 999\n", "FAIL\n", "SYST:ERR?\n", "SYST:ERR:COUN?\n", "SYST:ERR:NEXT?\n", "*RST\n", "NOPE;FAIL;SYST:ERR?;:SYST:ERR:COUN?\n", "syst:err?;:syst:err?\n",
    "*IDN;SYST:ERR:COUN?\n", "FAIL;LEV;FAIL;*IDN;SYST:ERR:COUN?\n", "ERR:RAIS -220;:SYST:ERR?\n",
    // a queue query with a surplus parameter is a faulty message: one error, nothing is removed or answered
    "SYST:ERR? 1\n", "SYST:ERR:COUN? 1\n", "NOPE;:SYST:ERR:NEXT? 0;:SYST:ERR:COUN?\n"];
const QATOMS: &[&str] = &["NOPE\n", "FAIL\n", "SYST:ERR?\n", "SYST:ERR:COUN?\n"];
const DRAIN: &str = "SYST:ERR:COUN?\nSYST:ERR?\nSYST:ERR?\nSYST:ERR?\nSYST:ERR?\nSYST:ERR:COUN?\n";
fn sequences(pool: &[&str], max_len: usize, tail: &str, emit: Emit) -> bool {
    let n = pool.len();
    let mut idx = vec![0usize; 1];
    loop {
        let mut m: Vec<u8> = idx.iter().flat_map(|i| pool[*i].as_bytes().to_vec()).collect();
        m.extend(tail.as_bytes());
        if !emit(run(m)) { return false; }
        let mut k = 0;
        loop {
            if k == idx.len() { if idx.len() == max_len { return true; } idx = vec![0; idx.len() + 1]; break; }
            idx[k] += 1;
            if idx[k] < n { break; }
            idx[k] = 0; k += 1;
        }
    }
}
/// against a queue of capacity 3: every sequence of 1..=4 operations from a pool of 15 (faulty messages of three
/// kinds, the three queue queries, an ordinary command, compound messages mixing faults and queries, a wrong-form
/// header in front of further units), and every sequence of 1..=9 operations from {undefined header, handler error,
/// SYSTem:ERRor?, SYSTem:ERRor:COUNt?} followed by a complete drain; every standard error number raised by a handler
/// and read back (number and description)
fn g_queue(seed: u64, emit0: Emit) {
    let deep = scale_of(seed) > 1;
    // every sequence on the logging device (order of reports) and on the device that owns the crate's queue directly
    let mut cnt = 0u64;
    let emit: Emit = &mut |sc: Scenario| -> bool {
        let input = sc.input.clone();
        cnt += 1;
        // capacity 3 always; capacities 1, 2 and 5 in turn
        let other = [1usize, 2, 5][(cnt % 3) as usize];
        emit0(sc) && emit0(Scenario { mode: Mode::RunRaw(3), input: input.clone(), whole: false, base: None }) && emit0(Scenario { mode: Mode::RunRaw(other), input, whole: false, base: None })
    };
    if !sequences(QOPS, 4, "", emit) { return; }
    // thorough: sequences of up to 10 operations (1 398 100)
    if !sequences(QATOMS, if deep { 10 } else { 9 }, DRAIN, emit) { return; }
    for n in -420i32..=60 {
        if !emit(run(format!("ERR:RAIS {n};:SYST:ERR:COUN?;:SYST:ERR?;:SYST:ERR?\n").into_bytes())) { return; }
    }
}

// ---------------------------------------------------------------- C10
/// 44 streams x N in {8,32,64} x four chunkings (one with empty reads), with a transport error injected at every index of the read / write /
/// flush call sequence (and none): the ordering write -> flush -> read, no write without a response, the injected
/// error returned unchanged with no further transport call
fn g_transport(_seed: u64, emit: Emit) {
    for s in STREAMS {
        let input = s.as_bytes().to_vec();
        let l = input.len();
        for n in [8usize, 32, 64] {
            for cuts in [vec![], (1..=l).collect::<Vec<usize>>(), (1..=l / 3).map(|i| i * 3).collect(), vec![0, 0, l / 2, l / 2, l, l, l]] {
                let calls_upper = 3 * l + 12;
                for fail_at in (0..calls_upper).map(Some).chain([None]) {
                    if !emit(Scenario { mode: Mode::Process { n, cuts: cuts.clone(), yields: 0, fail_at }, input: input.clone(), whole: false, base: None }) { return; }
                }
            }
        }
    }
}

// ---------------------------------------------------------------- C11
const LEX: &[&str] = &[
    "<SOUR:LEV> 5< >;<LEV?< >\n", "<MATH:SUM?> 1< >,< >2< >,< >3< >\n", "<MEAS:TRI?> -1< >,< >'a b'< >,< >ON< >;<:LEV?< >\n", "<*IDN?< >;<*RST< >\n", "<SOUR< >:< >LEV< >:< >STEP> 3< >\n",
    "<DISP:TEXT> \"x\"< >;<TEXT?< >\n<LEV?< >\n", "<DATA:BLOC> #12ab< >;<BLOC?< >\n", "<NOPE< >;<LEV?< >\n", "<SOUR:LEV> 300< >\n<SYST:ERR?< >\n", "<MEAS:DOUB?> 1.5E0< >\n", "<SOUR:MODE> OFF< >;<SUB:MODE> 1< >\n",
    "<HEX> #HfF< >\n", "<WIDE> -1< >,< >#B11< >,< >#Q17< >\n",
    "<MATH:MULTIPLYFLOAT?> 1.5< >,< >2< >\n", "<INP2:DIG_IO:TST> 3< >;<:INPUT2:DIG_IO:TEST> 4< >\n", "<MEAS:NORM< >;<:MEASURE:NORMALIZE< >\n", "<TRIG:IN_A< >;<INP< >;<:TRIGGER:INPUT< >\n",
    "<TEMP:VAL?< >;<:TEMPL:NAME?< >;<:TEMPERATURE:VALUE?< >\n", "<CONF:TEN> 1,2,3,4,5,6,7,8,9< >,< >10< >\n",
    "<CAL:TEMPO> 1< >;<TEMPERATUREOFFSET> 2< >;<:calibration:temperatureoffset> 3< >\n", "<MEAS:NOTH?< >;<NOTHING?< >\n",
];
const WS: &[&[u8]] = &[b" ", b"\t", b"\r", b" \x0b\x0c ", b"\x00\x01\x1f"];
/// 21 message templates with 3..=11 white-space slots each (before a unit, between header and parameters, around
/// commas and header colons, before ';' and before the terminator): every subset of the slots filled, for each of 5
/// white-space strings covering bytes 0-9 and 11-32; every header also in lower case and in long form; LF and CR LF.
/// Compared with the un-spaced upper-case short-form message (metamorphic: the reference is the real code itself).
fn g_lexical(_seed: u64, emit: Emit) {
    // through process: every white-space byte 0..=9, 11..=32 in a single slot, with a read boundary at every position
    // (white space must not depend on where the transport cuts the stream)
    for tpl in ["SOUR:LEV@7;LEV?\n", "SOUR:LEV 7@;@LEV?@\n", "MATH:SUM? 1@,@2,3@\n"] {
        let base_in: Vec<u8> = tpl.bytes().filter(|b| *b != b'@').collect();
        let base_in = if tpl.starts_with("SOUR:LEV@") { b"SOUR:LEV 7;LEV?\n".to_vec() } else { base_in };
        let base = Scenario { mode: Mode::Process { n: 64, cuts: vec![], yields: 0, fail_at: None }, input: base_in, whole: false, base: None };
        for w in (0u8..=32).filter(|b| *b != 10) {
            let v: Vec<u8> = tpl.bytes().map(|b| if b == b'@' { w } else { b }).collect();
            let l = v.len();
            let mut cutsets: Vec<Vec<usize>> = (1..l).map(|i| vec![i]).collect();
            cutsets.push((1..=l).collect());
            for cuts in cutsets {
                if !emit(Scenario { mode: Mode::Process { n: 64, cuts, yields: 0, fail_at: None }, input: v.clone(), whole: false, base: Some(Box::new(base.clone())) }) { return; }
            }
        }
    }
    // exchanging short and long forms / letter case: every spelling of every declaration against its all-long-form,
    // upper-case spelling
    for (id, d) in DECLS.iter().enumerate() {
        let (sps, q) = oracle::spellings(d);
        let qm: &[u8] = if q { b"?" } else { b"" };
        let longest = sps.iter().max_by_key(|p| p.iter().map(|m| m.len() + 1).sum::<usize>()).unwrap().clone();
        let base = run(cat(&[&longest.join(&b':'), qm, good_args(id).as_bytes(), b"\n"]));
        for sp in &sps {
            if sp.is_empty() { continue; }
            for k in [0u64, u64::MAX, 0x3333_3333_3333_3333, 0xaaaa_aaaa_aaaa_aaaa] {
                let h = mixed_case(&sp.join(&b':'), k);
                if !emit(Scenario { mode: Mode::Run, input: cat(&[&h, qm, good_args(id).as_bytes(), b"\n"]), whole: false, base: Some(Box::new(base.clone())) }) { return; }
            }
        }
    }
    for tpl in LEX {
        // split into literal pieces and slots; '<' = optional-white-space slot before a unit, '< >' = slot, '> ' = mandatory separator that may grow
        let t = tpl.as_bytes();
        let mut pieces: Vec<Vec<u8>> = vec![vec![]];
        let mut i = 0;
        while i < t.len() {
            if t[i] == b'<' && t.get(i + 1) == Some(&b' ') && t.get(i + 2) == Some(&b'>') { pieces.push(vec![]); i += 3; }
            else if t[i] == b'<' { pieces.push(vec![]); i += 1; }
            else if t[i] == b'>' && t.get(i + 1) == Some(&b' ') { pieces.last_mut().unwrap().push(b' '); pieces.push(vec![]); i += 2; }
            else { pieces.last_mut().unwrap().push(t[i]); i += 1; }
        }
        let slots = pieces.len() - 1;
        let basev: Vec<u8> = pieces.concat();
        let base = run(basev.clone());
        let long = |b: &[u8]| -> Vec<u8> {
            let s = String::from_utf8_lossy(b).into_owned();
            let mut s = s;
            for (a, l) in [("SOUR", "SOURCE"), ("LEV", "LEVEL"), ("MEAS", "MEASURE"), ("TRI", "TRIPLE"), ("DISP", "DISPLAY"), ("BLOC", "BLOCK"), ("SYST", "SYSTEM"), ("ERR", "ERROR"), ("MULT", "MULTIPLY")] {
                s = s.replace(&format!("{a}:"), &format!("{l}:")).replace(&format!("{a}?"), &format!("{l}?")).replace(&format!("{a} "), &format!("{l} ")).replace(&format!("{a};"), &format!("{l};")).replace(&format!("{a}\n"), &format!("{l}\n"));
            }
            s.into_bytes()
        };
        for ws in WS {
            for mask in 0..(1u32 << slots) {
                let mut m: Vec<u8> = pieces[0].clone();
                for (si, p) in pieces[1..].iter().enumerate() { if (mask >> si) & 1 == 1 { m.extend(*ws); } m.extend(p); }
                let variants: Vec<Vec<u8>> = if mask % 5 == 0 {
                    // letter case of mnemonics only (outside quotes), long forms, CR LF
                    let lower: Vec<u8> = { let mut q = 0u8; m.iter().map(|c| { if *c == b'\'' || *c == b'"' { q ^= 1; } if q == 0 && c.is_ascii_uppercase() && *c != b'E' && *c != b'H' && *c != b'B' && *c != b'Q' { c.to_ascii_lowercase() } else { *c } }).collect() };
                    let crlf: Vec<u8> = m.iter().flat_map(|c| if *c == b'\n' { vec![b'\r', b'\n'] } else { vec![*c] }).collect();
                    vec![m.clone(), lower, long(&m), crlf]
                } else { vec![m.clone()] };
                for v in variants {
                    if !emit(Scenario { mode: Mode::Run, input: v, whole: false, base: Some(Box::new(base.clone())) }) { return; }
                }
            }
        }
    }
}

// ---------------------------------------------------------------- C12
const FINAL_BASE: &[&str] = &[
    "SOUR:LEV 5\n", "SOUR:LEV 5;LEV?\n", "MATH:SUM? 1,2,3\n", "DISP:TEXT 'a;b'\n", "DISP:TEXT \"x\ny\"\n", "DATA:BLOC #13a\nb\n", "MEAS:DOUB? -1.5E+3\n", "HEX #HFF\n", "HEX #B101\n", "HEX #Q17\n", "*IDN?\n",
    "SOUR:LEV:STEP 1\n", "NOPE 1\n", "SOUR:LEV 1 2\n", "SOUR:LEV @\n", "SOUR:LEV 'a\n", "SOUR:LEV #H\n", "SOUR:LEV #\n", "SOUR:LEV 1E\n", "SOUR:LEV 1E+\n", "SOUR:LEV .\n", "SOUR:LEV -\n", "DATA:BLOC #\n", "DATA:BLOC #2\n",
    "DATA:BLOC #21\n", "DATA:BLOC #15ab\n", "MEAS:TRI? 1,'a\n", "MEAS:TRI? 1,#13a\n", "  \n", ";\n", "SOUR:\n", "SOUR:LEV 1,\n", "SOUR:LEV ,\n", "*\n", ":\n", "SOUR:LEV 1;\n", "SOUR:LEV 5\r\n", "DISP:TEXT '\u{e9}'\n",
    "DISP:TEXT 'a'\u{e9}\n", "HEX #HF\u{e9}\n",
    "DATA:BLOC #0\n", "MEAS:TRI? 1,#0\n", "DATA:BLOC #9000000001a\n", "DATA:BLOC #2+5abcde\n", "DATA:BLOC #15abc\n", "DATA:BLOC #15abcd\n", "DATA:BLOC #210abcdefghi\n", "MATH:SUM? 1,2,#H\n", "MATH:SUM? 1,2,'\n",
    "CONF:TEN 1,2,3,4,5,6,7,8,9,10,11\n", "SOUR:LEV 1,2,3,4,5,6,7,8,9,10,'\n",
];
const TAILS: &[&[u8]] = &[b"", b"\n", b"x", b"LEV?\n", b"'", b"\"", b";", b"\xff", b" ", b"1", b"#", b"E", b".", b",", b"a\n", b"'\n", b"\"\n", b"5\n", b"b'\n", b"ab\n"];
/// 51 unit texts (accepted, rejected, and ending inside a string / block / number / header), each cut at every byte
/// position and each continued by 20 tails: the unconsumed remainder, the verdict (executed / one error / incomplete)
/// and the calls must be those of the specification, which depend only on the consumed bytes
fn g_finality(seed: u64, emit: Emit) {
    let deep = scale_of(seed) > 1;
    for b in FINAL_BASE {
        let full = b.as_bytes();
        for cut in 0..=full.len() {
            for t in TAILS {
                // thorough: every tail (and every pair of tails) behind every cut, not only behind the complete text
                if !deep && cut < full.len() && !t.is_empty() && t != b"\n" { continue; }
                if !emit(run(cat(&[&full[..cut], t]))) { return; }
                if deep { for t2 in TAILS { if !emit(run(cat(&[&full[..cut], t, t2]))) { return; } } }
            }
        }
    }
}

pub const FAMILIES: &[Family] = &[
    Family { name: "headers", props: &["C01"], kinds: &["handler", "error", "panic", "hang"], gen: g_headers,
        bound: "interface T2 (51 declarations + 3 requested standard commands): every allowed spelling x 3 letter cases x relative/absolute; per level every cut between short and long form, two extensions, level dropped / doubled / appended; query mark toggled; 8 undeclared standard headers" },
    Family { name: "compound", props: &["C02"], kinds: &["handler", "flush", "error", "panic", "hang"], gen: g_compound,
        bound: "every message of 1..=3 units from a pool of 30 (27 930 messages), the 1- and 2-unit ones also after 5 different preceding messages and with a trailing ';'; 10 compound streams through process (N = 64) with a read boundary at every position; thorough tier: also every message of 4 units from 14 of them" },
    Family { name: "args", props: &["C03"], kinds: &["args", "handler", "error", "panic", "hang"], gen: g_args,
        bound: "4 single-integer handlers x 278 literals; 6 multi-parameter patterns x 278 x 5; 22 boolean, 14 string, 12 block, 33 real literals; parameter counts 0..=12 for all 54 declarations" },
    Family { name: "responses", props: &["C04"], kinds: &["response", "flush", "writer", "panic", "hang"], gen: g_responses,
        bound: "31 queries alone and in compound messages; ~900 integers (powers of 10 and 2 and neighbours, zero digit groups, type bounds) echoed as u64 / i64 / i8 / u8; strings / blocks of every 1..=3 element combination of {a \" ' ; , e-acute SP}; payload lengths 0..=1000; 39 real literals echoed as f32 and f64, 5 special-value sets; logging writer vs std Vec writer vs heapless writers of 64 and 1024 bytes" },
    Family { name: "robust", props: &["C05"], kinds: &["panic", "hang"], gen: g_robust,
        bound: "token soup over 27 tokens: all sequences of 1..=3 (with and without NL), 200 000 sampled sequences of 4..=12 (seeded); plus structured inputs (0..=14 parameters, blocks short by 0..=3 bytes, very long numbers / mnemonics / reals) and every input of the families headers, compound, args, responses, faulty, finality, transport; each through run (unbounded writer and writers of 1..=64 bytes) and process with N in {1,2,3,4,8,16}; a scenario without progress for 30 s is reported as a hang" },
    Family { name: "faulty", props: &["C06"], kinds: &["handler", "error", "panic", "hang"], gen: g_faulty,
        bound: "59 kinds of faulty unit (9 of them not valid UTF-8) x 5 positions in a message x 7 surrounding good messages; run on one buffer and process (N = 64) with reads of 1, 5 and all bytes" },
    Family { name: "chunking", props: &["C07"], kinds: &["handler", "error", "response", "transport", "args", "panic", "hang"], gen: g_chunking,
        bound: "44 streams x N in {4,5,8,10,16,21,32,43,64} x all compositions (length <= 12; thorough tier: <= 16) or single bytes / all 2-splits / fixed sizes 2..=9 / empty reads / 40 sampled compositions; 0, 1, 3 suspensions per transport call; reference = same stream in maximal reads (real code); and, for streams of fitting messages, reference = the real run one message at a time" },
    Family { name: "containers", props: &["C08"], kinds: &["handler", "args", "error", "rest", "panic", "hang"], gen: g_containers,
        bound: "payloads of 1..=3 (thorough tier: 1..=4) bytes from 12 special bytes in strings of both quote kinds and blocks, 7 message shapes (incl. a relative unit behind a compound unit and behind a common command); run whole and process (N = 64) with a read boundary at every position; reference = one run over the whole stream; 4 faulty messages after which run() hands back an incomplete rest, every 1- and 2-split" },
    Family { name: "queue", props: &["C09"], kinds: &["queue", "error", "response", "handler", "panic", "hang"], gen: g_queue,
        bound: "queue of capacity 3: every sequence of 1..=4 operations from a pool of 15 (54 240); every sequence of 1..=9 operations from {undefined header, handler error, ERRor?, COUNt?} followed by a drain (349 524); every error number -420..=60 raised and read back; each on the logging device and on devices that own StaticErrorQueue<N> directly (N = 3, and 1, 2, 5 in turn); thorough tier: sequences of up to 10 operations" },
    Family { name: "transport", props: &["C10"], kinds: &["transport", "panic", "hang"], gen: g_transport,
        bound: "44 streams x N in {8,32,64} x 4 chunkings (one with empty reads) x a transport error at every call index (and none)" },
    Family { name: "lexical", props: &["C11"], kinds: &["handler", "args", "error", "response", "rest", "panic", "hang"], gen: g_lexical,
        bound: "21 templates with 3..=11 white-space slots: every subset of slots x 5 white-space strings (bytes 0-9, 11-32); lower case, long forms, CR LF on every fifth; reference = the un-spaced message (real code); every spelling of every declaration in 4 letter cases against its long upper-case spelling; 3 templates through process with every white-space byte and a read boundary at every position" },
    Family { name: "finality", props: &["C12"], kinds: &["rest", "error", "handler", "panic", "hang"], gen: g_finality,
        bound: "51 unit texts cut at every byte position, the complete ones continued by 20 tails; thorough tier: every tail and every pair of tails behind every cut" },
];
